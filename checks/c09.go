package checks

import (
	"verif/sim/kit"
	"verif/sim/model"
	"verif/sim/schema"
	"verif/sim/sess"
	"verif/sim/store"
)

// C09 — at most one case of a choice ever holds data: an invariant over edit
// histories maintained by a multi-step protocol (ask the target which case is
// active, clear its leaves, delete its containers/lists, write the new case),
// any step of which may fail.

var c09Stores = []string{"nstruct0", "nacc", "rmap", "nmap", "nstruct", "ctl", "rmap", "nstruct"}

func c09Gen(r *kit.Rng) *histScenario {
	sk := store.Variant(r, c09Stores[r.Intn(len(c09Stores))])
	st, _ := store.New(sk)
	caps := st.Caps()
	caps.MaxNodes = r.Range(8, 22)
	caps.ChoiceDefaults = true
	s := schema.Generate(r, caps, "m", true, false)
	s.RpcMirror = r.Chance(1, 4)
	o := st.GenOpts()
	o.Density = r.Pick3(50, 70, 90)
	init := model.Random(r, s, o.WithBudget(40), 0)
	g := &opGen{r: r, o: o, srcs: []string{"json", "xml", "mnode"}, kinds: []string{"upsert"}}
	sc := &histScenario{Schema: s, Store: sk, Init: init}
	cur := init.Clone()
	n := r.Range(2, 15)
	for i := 0; i < n; i++ {
		op := g.next(cur)
		if s.RpcMirror && len(op.At) == 0 && op.Kind == "upsert" && r.Chance(2, 3) {
			op.ViaRpc = true
		}
		sc.Ops = append(sc.Ops, op)
		sc.Into = append(sc.Into, false)
		next := cur.Clone()
		if out, ok := sess.ApplyModel(next, op); ok && out.Err == model.OK {
			cur = next
		}
	}
	return sc
}

func init() {
	cfg := histCfg{prop: "C09", checkCases: true}
	Registry["C09"] = func() *Check {
		return histCheck("C09", cfg, c09Gen, 4,
			"one run = one seeded history of 2-15 upserts on a schema with several choices per container, choices nested in cases, shorthand cases, cases holding leaves, leaf-lists, containers and lists, choices inside list entries; payloads pick a case per choice at random so histories alternate A->B->A, switch nested choices while the outer stays, and switch inside one list entry only; in a quarter of the schemas the same definitions are also the input of an rpc and root upserts are delivered as that rpc's input, whose handler upserts the input into the store. Fault-free: after every upsert the store's Go value walked directly (never through Choose) holds data of at most one case per choice instance and equals the model everywhere; the library export lists only the selected case. Fault-injecting: the same history re-run with one error/refuse/error-after-effect at a seeded callback of one operation; after the failed call at most one case may hold data, nothing outside the operation's footprint changed, every leaf inside is old or new. distinct_nontrivial counts distinct event-log fingerprints among fault-free histories that changed the store and faulted histories whose fault fired",
			[]string{
				"targets are the stores that implement case detection (map-backed Reflect, nodeutil.Node over maps and structs, control)",
				"a failing Choose of the target is excluded from the one-case oracle: the editor documents that it proceeds without clearing (recorded under C12)",
				"defaults are not generated inside cases (a default would select a case implicitly)",
			}, 4000)
	}
}
