//go:build verif

package checks

import (
	"fmt"
	"sort"
	"strings"

	"verif/sim/load"
)

// Statement-placement matrix: every statement kind of the grammar written
// inside every kind of block. Most combinations are illegal YANG; some the
// grammar accepts and only the builder, resolver or compiler can refuse
// (a setter reached with a parent of the wrong kind). Each must come back as a
// module or an error like any other text.

var c14Statements = []string{
	"action ax { input { leaf i { type string; } } }",
	"anydata adx;",
	"anyxml axx;",
	"argument argx { yin-element true; }",
	"augment \"/c\" { leaf augl { type string; } }",
	"augment \"c\" { leaf augl { type string; } }",
	"base idx;",
	"belongs-to hostm { prefix hm; }",
	"bit bx { position 3; }",
	"case csx { leaf csl { type string; } }",
	"choice chx { leaf chl { type string; } }",
	"config false;",
	"contact \"c\";",
	"container cx { leaf cxl { type string; } }",
	"default \"dx\";",
	"default 1;",
	"description \"d\";",
	"deviate not-supported;",
	"deviate add { default 1; units u; max-elements 3; min-elements 1; must \"x\"; unique \"a b\"; config true; mandatory true; }",
	"deviate replace { type int8; default 2; units v; }",
	"deviate delete { default 1; units u; must \"x\"; unique \"a\"; }",
	"deviation \"/c\" { deviate not-supported; }",
	"enum ex { value 7; }",
	"error-app-tag \"tag\";",
	"error-message \"msg\";",
	"extension extx { argument a; }",
	"feature fx;",
	"fraction-digits 2;",
	"grouping gx { leaf gxl { type string; } }",
	"identity idx;",
	"identity idy { base idx; }",
	"if-feature fx;",
	"if-feature \"fx or not fy\";",
	"import impx { prefix ix; }",
	"include incx;",
	"input { leaf il { type string; } }",
	"key \"k\";",
	"leaf lx { type string; }",
	"leaf-list llx { type string; }",
	"length \"1..5\";",
	"length \"1..5\" { modifier invert-match; error-message m; }",
	"list lix { key k; leaf k { type string; } }",
	"mandatory true;",
	"max-elements 5;",
	"max-elements unbounded;",
	"min-elements 1;",
	"modifier invert-match;",
	"must \"1 = 1\" { error-message m; error-app-tag t; }",
	"namespace \"urn:x\";",
	"notification nx { leaf nl { type string; } }",
	"ordered-by user;",
	"ordered-by system;",
	"organization \"o\";",
	"output { leaf ol { type string; } }",
	"path \"../lx\";",
	"pattern \"[a-z]+\" { modifier invert-match; }",
	"position 1;",
	"prefix px;",
	"presence \"p\";",
	"range \"1..5\";",
	"range \"1..5\" { modifier invert-match; }",
	"reference \"r\";",
	"refine lx { default q; mandatory true; }",
	"require-instance false;",
	"revision 2020-02-02 { description d; }",
	"revision-date 2020-02-02;",
	"rpc rx { input { leaf i { type string; } } }",
	"status deprecated;",
	"type string;",
	"type int32 { range \"1..5\"; }",
	"type enumeration { enum a; }",
	"type union { type string; type int8; }",
	"type leafref { path \"../lx\"; }",
	"type identityref { base idx; }",
	"type decimal64 { fraction-digits 2; }",
	"typedef tdx { type string; }",
	"unique \"a b\";",
	"units \"u\";",
	"uses gx;",
	"uses gx { refine gxl { default z; } augment gxl { leaf q { type string; } } }",
	"value 3;",
	"when \"1 = 1\";",
	"yang-version 1.1;",
	"yin-element false;",
	"hostm:extx \"arg\";",
	"hostm:extx;",
}

// hosts: a module text with one slot per kind of block.
var c14Hosts = map[string]string{
	"module":          "%s",
	"container":       "container hc { %s }",
	"list":            "list hl { key k; leaf k { type string; } %s }",
	"leaf":            "leaf hlf { type string; %s }",
	"leaf-after-none": "leaf hlf { %s }",
	"leaf-list":       "leaf-list hll { type string; %s }",
	"type":            "leaf hlf { type string { %s } }",
	"type-int":        "leaf hlf { type int32 { %s } }",
	"type-union":      "leaf hlf { type union { type string; %s } }",
	"type-enum":       "leaf hlf { type enumeration { enum a; %s } }",
	"type-bits":       "leaf hlf { type bits { bit a { position 0; } %s } }",
	"type-leafref":    "leaf hlf { type leafref { path \"../lx\"; %s } }",
	"type-identref":   "leaf hlf { type identityref { base idx; %s } }",
	"type-decimal":    "leaf hlf { type decimal64 { fraction-digits 2; %s } }",
	"range":           "leaf hlf { type int32 { range \"1..9\" { %s } } }",
	"length":          "leaf hlf { type string { length \"1..9\" { %s } } }",
	"pattern":         "leaf hlf { type string { pattern \"a*\" { %s } } }",
	"enum":            "leaf hlf { type enumeration { enum a { %s } } }",
	"bit":             "leaf hlf { type bits { bit a { %s } } }",
	"choice":          "choice hch { %s }",
	"case":            "choice hch { case hcs { %s } }",
	"rpc":             "rpc hr { %s }",
	"input":           "rpc hr { input { %s } }",
	"output":          "rpc hr { output { %s } }",
	"action":          "container hc { action ha { %s } }",
	"notification":    "notification hn { %s }",
	"grouping":        "grouping hg { %s } uses hg;",
	"grouping-unused": "grouping hg { %s }",
	"uses":            "uses gx { %s }",
	"refine":          "uses gx { refine gxl { %s } }",
	"uses-augment":    "uses gx { augment gxl { %s } }",
	"augment":         "augment \"/c\" { %s }",
	"deviation":       "deviation \"/c\" { %s }",
	"deviate-add":     "deviation \"/c/cl\" { deviate add { %s } }",
	"deviate-replace": "deviation \"/c/cl\" { deviate replace { %s } }",
	"deviate-delete":  "deviation \"/c/cl\" { deviate delete { %s } }",
	"import":          "import impx { prefix ix; %s }",
	"include":         "include incx { %s }",
	"revision":        "revision 2021-01-01 { %s }",
	"feature":         "feature hf { %s }",
	"identity":        "identity hi { %s }",
	"extension":       "extension hex { %s }",
	"argument":        "extension hex { argument a { %s } }",
	"typedef":         "typedef htd { type string; %s }",
	"must":            "leaf hlf { type string; must \"1=1\" { %s } }",
	"when":            "leaf hlf { type string; when \"1=1\" { %s } }",
	"anydata":         "anydata had { %s }",
	"unknown":         "hostm:extx arg { %s }",
	"belongs-to":      "belongs-to hostm { prefix hm; %s }",
}

func c14Matrix(twice bool) []*load.Case {
	const pre = "module hostm { yang-version 1.1; namespace \"urn:hostm\"; prefix hostm; "
	const common = " extension extx { argument a; } feature fx; feature fy; identity idx; grouping gx { leaf gxl { type string; } } leaf lx { type string; } container c { leaf cl { type string; } } }"
	files := map[string]string{
		"impx": "module impx { namespace \"urn:impx\"; prefix ix; typedef t { type string; } grouping g { leaf x { type string; } } }",
		"incx": "submodule incx { belongs-to hostm { prefix hm; } leaf incl { type string; } }",
	}
	var hostNames []string
	for h := range c14Hosts {
		hostNames = append(hostNames, h)
	}
	sort.Strings(hostNames)
	var out []*load.Case
	for _, h := range hostNames {
		for si, s := range c14Statements {
			body := fmt.Sprintf(c14Hosts[h], s)
			kw := s
			if i := strings.IndexAny(s, " ;"); i > 0 {
				kw = s[:i]
			}
			out = append(out, &load.Case{ID: fmt.Sprintf("matrix|%s|%s#%d", h, kw, si), Main: pre + body + common, Files: files, Order: load.OrderSpec{Mode: "sorted"}})
			if twice {
				// the same statement twice in one block (most are allowed once only)
				out = append(out, &load.Case{ID: fmt.Sprintf("matrix2|%s|%s#%d", h, kw, si), Main: pre + fmt.Sprintf(c14Hosts[h], s+" "+s) + common, Files: files, Order: load.OrderSpec{Mode: "sorted"}})
			}
		}
	}
	return out
}
