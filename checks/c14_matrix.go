//go:build verif

package checks

import (
	"fmt"
	"sort"
	"strings"

	"verif/sim/load"
)

// Statement-placement matrix: every statement kind of the grammar written
// inside every kind of block. Most combinations are illegal YANG; some the
// grammar accepts and only the builder, resolver or compiler can refuse
// (a setter reached with a parent of the wrong kind). Each must come back as a
// module or an error like any other text.

var c14Statements = []string{
	"action ax { input { leaf i { type string; } } }",
	"anydata adx;",
	"anyxml axx;",
	"argument argx { yin-element true; }",
	"augment \"/c\" { leaf augl { type string; } }",
	"augment \"c\" { leaf augl { type string; } }",
	"base idx;",
	"belongs-to hostm { prefix hm; }",
	"bit bx { position 3; }",
	"case csx { leaf csl { type string; } }",
	"choice chx { leaf chl { type string; } }",
	"config false;",
	"config true;",
	"contact \"c\";",
	"container cx { leaf cxl { type string; } }",
	"default \"dx\";",
	"default 1;",
	"description \"d\";",
	"deviate not-supported;",
	"deviate add { default 1; units u; max-elements 3; min-elements 1; must \"x\"; unique \"a b\"; config true; mandatory true; }",
	"deviate replace { type int8; default 2; units v; }",
	"deviate delete { default 1; units u; must \"x\"; unique \"a\"; }",
	"deviation \"/c\" { deviate not-supported; }",
	"enum ex { value 7; }",
	"error-app-tag \"tag\";",
	"error-message \"msg\";",
	"extension extx { argument a; }",
	"feature fx;",
	"fraction-digits 2;",
	"grouping gx { leaf gxl { type string; } }",
	"identity idx;",
	"identity idy { base idx; }",
	"if-feature fx;",
	"if-feature \"fx or not fy\";",
	"import impx { prefix ix; }",
	"include incx;",
	"input { leaf il { type string; } }",
	"key \"k\";",
	"leaf lx { type string; }",
	"leaf-list llx { type string; }",
	"length \"1..5\";",
	"length \"1..5\" { modifier invert-match; error-message m; }",
	"list lix { key k; leaf k { type string; } }",
	"mandatory true;",
	"max-elements 5;",
	"max-elements unbounded;",
	"min-elements 1;",
	"modifier invert-match;",
	"must \"1 = 1\" { error-message m; error-app-tag t; }",
	"namespace \"urn:x\";",
	"notification nx { leaf nl { type string; } }",
	"ordered-by user;",
	"ordered-by system;",
	"organization \"o\";",
	"output { leaf ol { type string; } }",
	"path \"../lx\";",
	"pattern \"[a-z]+\" { modifier invert-match; }",
	"position 1;",
	"prefix px;",
	"presence \"p\";",
	"range \"1..5\";",
	"range \"1..5\" { modifier invert-match; }",
	"reference \"r\";",
	"refine lx { default q; mandatory true; }",
	"require-instance false;",
	"revision 2020-02-02 { description d; }",
	"revision-date 2020-02-02;",
	"rpc rx { input { leaf i { type string; } } }",
	"status deprecated;",
	"type string;",
	"type int32 { range \"1..5\"; }",
	"type enumeration { enum a; }",
	"type union { type string; type int8; }",
	"type leafref { path \"../lx\"; }",
	"type identityref { base idx; }",
	"type decimal64 { fraction-digits 2; }",
	"typedef tdx { type string; }",
	"unique \"a b\";",
	"units \"u\";",
	"uses gx;",
	"uses gx { refine gxl { default z; } augment gxl { leaf q { type string; } } }",
	"value 3;",
	"when \"1 = 1\";",
	"yang-version 1.1;",
	"yin-element false;",
	"hostm:extx \"arg\";",
	"hostm:extx;",
	"hostm:extx \"arg\" { leaf el { type hostm:tdy; } }",
	"hostm:extx \"arg\" { leaf el { type leafref { path \"/hostm:c/hostm:cl\"; } } container ec { uses gx; } }",
	"hostm:extx \"arg\" { hostm:extx \"in\" { leaf el { type string; } } typedef et { type int8; } }",
}

// hosts: a module text with one slot per kind of block.
var c14Hosts = map[string]string{
	"module":          "%s",
	"container":       "container hc { %s }",
	"list":            "list hl { key k; leaf k { type string; } %s }",
	"leaf":            "leaf hlf { type string; %s }",
	"leaf-after-none": "leaf hlf { %s }",
	"leaf-list":       "leaf-list hll { type string; %s }",
	"type":            "leaf hlf { type string { %s } }",
	"type-int":        "leaf hlf { type int32 { %s } }",
	"type-union":      "leaf hlf { type union { type string; %s } }",
	"type-enum":       "leaf hlf { type enumeration { enum a; %s } }",
	"type-bits":       "leaf hlf { type bits { bit a { position 0; } %s } }",
	"type-leafref":    "leaf hlf { type leafref { path \"../lx\"; %s } }",
	"type-identref":   "leaf hlf { type identityref { base idx; %s } }",
	"type-decimal":    "leaf hlf { type decimal64 { fraction-digits 2; %s } }",
	"range":           "leaf hlf { type int32 { range \"1..9\" { %s } } }",
	"length":          "leaf hlf { type string { length \"1..9\" { %s } } }",
	"pattern":         "leaf hlf { type string { pattern \"a*\" { %s } } }",
	"enum":            "leaf hlf { type enumeration { enum a { %s } } }",
	"bit":             "leaf hlf { type bits { bit a { %s } } }",
	"choice":          "choice hch { %s }",
	"case":            "choice hch { case hcs { %s } }",
	"rpc":             "rpc hr { %s }",
	"input":           "rpc hr { input { %s } }",
	"output":          "rpc hr { output { %s } }",
	"action":          "container hc { action ha { %s } }",
	"notification":    "notification hn { %s }",
	"grouping":        "grouping hg { %s } uses hg;",
	"grouping-unused": "grouping hg { %s }",
	"uses":            "uses gx { %s }",
	"refine":          "uses gx { refine gxl { %s } }",
	"uses-augment":    "uses gx { augment gxl { %s } }",
	"augment":         "augment \"/c\" { %s }",
	"deviation":       "deviation \"/c\" { %s }",
	"deviate-add":     "deviation \"/c/cl\" { deviate add { %s } }",
	"deviate-replace": "deviation \"/c/cl\" { deviate replace { %s } }",
	"deviate-delete":  "deviation \"/c/cl\" { deviate delete { %s } }",
	"import":          "import impx { prefix ix; %s }",
	"include":         "include incx { %s }",
	"revision":        "revision 2021-01-01 { %s }",
	"feature":         "feature hf { %s }",
	"identity":        "identity hi { %s }",
	"extension":       "extension hex { %s }",
	"argument":        "extension hex { argument a { %s } }",
	"typedef":         "typedef htd { type string; %s }",
	"must":            "leaf hlf { type string; must \"1=1\" { %s } }",
	"when":            "leaf hlf { type string; when \"1=1\" { %s } }",
	"anydata":         "anydata had { %s }",
	"unknown":         "hostm:extx arg { %s }",
	"belongs-to":      "belongs-to hostm { prefix hm; %s }",
}

// c14NestedHosts puts the slot one level further down: inside a data node of
// every kind that itself sits inside every kind of block that can hold data
// nodes (a property that is legal on a leaf in a container may be one the
// compiler cannot inherit or check below an rpc input, a notification, a case).
func c14NestedHosts() map[string]string {
	outer := map[string]string{
		"module": "%s", "container": "container hc { %s }", "list": "list hl { key k; leaf k { type string; } %s }",
		"choice": "choice hch { %s }", "case": "choice hch { case hcs { %s } }", "input": "rpc hr { input { %s } }",
		"output": "rpc hr { output { %s } }", "notification": "notification hn { %s }",
		"action-input": "container hc { action ha { input { %s } } }", "grouping": "grouping hg { %s } uses hg;",
		"grouping-in-input": "grouping hg { %s } rpc hr { input { uses hg; } }",
		"augment":           "augment \"/c\" { %s }", "uses-augment": "uses gc { augment gcc { %s } }",
		"nested-notification": "container hc { notification hn { %s } }",
	}
	inner := map[string]string{
		"leaf": "leaf zl { type string; %s }", "leaf-list": "leaf-list zll { type string; %s }", "container": "container zc { %s }",
		"list": "list zli { key zk; leaf zk { type string; } %s }", "choice": "choice zch { %s }", "anydata": "anydata zad { %s }",
		"leaf-int": "leaf zl { type int32; %s }",
	}
	out := map[string]string{}
	for on, o := range outer {
		for in, i := range inner {
			out["in-"+on+"/"+in] = strings.Replace(o, "%s", i, 1)
		}
	}
	return out
}

// c14Targets: every operation that names another node by a schema path
// (deviation, augment, uses-augment, refine, leafref, key, unique, choice
// default) aimed at every kind of node, including none. The resolver and the
// compiler look the path up and use what they find.
func c14Targets() []*load.Case {
	const pre = "module hostm { yang-version 1.1; namespace \"urn:hostm\"; prefix hostm; feature fx; identity idx; grouping gx { leaf gxl { type string; } } "
	type target struct{ name, def, path, rel string }
	targets := []target{
		{"container", "container tg { leaf x { type string; } }", "/tg", "tg"},
		{"presence-container", "container tg { presence p; }", "/tg", "tg"},
		{"list", "list tg { key k; leaf k { type string; } }", "/tg", "tg"},
		{"leaf", "leaf tg { type string; }", "/tg", "tg"},
		{"leaf-int", "leaf tg { type int32; default 3; units u; }", "/tg", "tg"},
		{"leaf-list", "leaf-list tg { type string; }", "/tg", "tg"},
		{"choice", "choice tg { case a { leaf ca { type string; } } }", "/tg", "tg"},
		{"case", "choice zc { case tg { leaf ca { type string; } } }", "/zc/tg", "zc/tg"},
		{"shorthand-case-leaf", "choice zc { leaf tg { type string; } }", "/zc/tg/tg", "zc/tg/tg"},
		{"shorthand-case", "choice zc { leaf tg { type string; } }", "/zc/tg", "zc/tg"},
		{"anydata", "anydata tg;", "/tg", "tg"},
		{"rpc", "rpc tg { input { leaf i { type string; } } }", "/tg", "tg"},
		{"rpc-input", "rpc tg { input { leaf i { type string; } } }", "/tg/input", "tg/input"},
		{"rpc-output-absent", "rpc tg { input { leaf i { type string; } } }", "/tg/output", "tg/output"},
		{"rpc-input-leaf", "rpc tg { input { leaf i { type string; } } }", "/tg/input/i", "tg/input/i"},
		{"notification", "notification tg { leaf n { type string; } }", "/tg", "tg"},
		{"action", "container zc { action tg { input { leaf i { type string; } } } }", "/zc/tg", "zc/tg"},
		{"leaf-in-list", "list zl { key k; leaf k { type string; } leaf tg { type string; } }", "/zl/tg", "zl/tg"},
		{"key-leaf", "list zl { key tg; leaf tg { type string; } }", "/zl/tg", "zl/tg"},
		{"grouping", "grouping tg { leaf q { type string; } }", "/tg", "tg"},
		{"typedef", "typedef tg { type string; }", "/tg", "tg"},
		{"identity", "identity tg;", "/tg", "tg"},
		{"feature", "feature tg;", "/tg", "tg"},
		{"missing", "", "/tg", "tg"},
		{"missing-below-leaf", "leaf zq { type string; }", "/zq/tg", "zq/tg"},
		{"prefixed", "container tg { leaf x { type string; } }", "/hostm:tg/hostm:x", "hostm:tg/hostm:x"},
		{"unknown-prefix", "container tg { leaf x { type string; } }", "/zz:tg", "zz:tg"},
		{"trailing-slash", "container tg { leaf x { type string; } }", "/tg/", "tg/"},
		{"double-slash", "container tg { leaf x { type string; } }", "//tg", "/tg"},
	}
	deviates := []string{"not-supported;", "add { default 1; }", "add { units u; }", "add { max-elements 3; }", "add { min-elements 1; }",
		"add { must \"1=1\"; }", "add { unique \"x\"; }", "add { config false; }", "add { mandatory true; }", "add { default a; default b; }",
		"replace { type int8; }", "replace { default 2; }", "replace { units v; }", "replace { config false; }", "replace { mandatory false; }",
		"replace { min-elements 2; }", "replace { max-elements 9; }", "replace { type leafref { path \"../zq\"; } }",
		"delete { default 3; }", "delete { units u; }", "delete { must \"1=1\"; }", "delete { unique \"x\"; }", "delete { default nope; }"}
	contents := []string{"leaf al { type string; }", "container ac { }", "list ali { key k; leaf k { type string; } }", "leaf-list all { type string; }",
		"choice ach { leaf acl { type string; } }", "case acs { leaf acl { type string; } }", "action aa;", "notification an;", "anydata aad;", "uses gx;",
		"action ab { input { leaf i { type string; } } output { leaf o { type string; } } }", "notification anb { leaf n { type string; } }",
		"container ac2 { action ab2 { input { leaf i { type string; } } } notification an2 { leaf n { type string; } } }",
		"leaf al { type string; mandatory true; }", "leaf x { type string; }"}
	refines := []string{"default x;", "default 1; default 2;", "mandatory true;", "config false;", "min-elements 1;", "max-elements 2;", "presence p;",
		"description d;", "must \"1=1\";", "if-feature fx;", "reference r;"}
	var out []*load.Case
	add := func(id, body string) {
		out = append(out, &load.Case{ID: "target|" + id, Main: pre + body + " }", Order: load.OrderSpec{Mode: "sorted"}})
	}
	for _, t := range targets {
		for i, d := range deviates {
			add(fmt.Sprintf("%s|deviate#%d", t.name, i), fmt.Sprintf("%s deviation \"%s\" { deviate %s }", t.def, t.path, d))
		}
		for i, c := range contents {
			add(fmt.Sprintf("%s|augment#%d", t.name, i), fmt.Sprintf("%s augment \"%s\" { %s }", t.def, t.path, c))
			add(fmt.Sprintf("%s|uses-augment#%d", t.name, i), fmt.Sprintf("grouping tgg { %s } uses tgg { augment \"%s\" { %s } }", t.def, t.rel, c))
			add(fmt.Sprintf("%s|augment-when#%d", t.name, i), fmt.Sprintf("%s augment \"%s\" { when \"1=1\"; if-feature fx; %s }", t.def, t.path, c))
		}
		for i, r := range refines {
			add(fmt.Sprintf("%s|refine#%d", t.name, i), fmt.Sprintf("grouping tgg { %s } uses tgg { refine \"%s\" { %s } }", t.def, t.rel, r))
		}
		add(t.name+"|leafref-abs", fmt.Sprintf("%s leaf lr { type leafref { path \"%s\"; } }", t.def, t.path))
		add(t.name+"|leafref-rel", fmt.Sprintf("%s leaf lr { type leafref { path \"../%s\"; } }", t.def, t.rel))
		add(t.name+"|leafref-in-typedef", fmt.Sprintf("%s typedef lrt { type leafref { path \"%s\"; } } container lc { leaf lr { type lrt; } }", t.def, t.path))
		add(t.name+"|leafref-in-union", fmt.Sprintf("%s leaf lr { type union { type int8; type leafref { path \"%s\"; } } }", t.def, t.path))
		add(t.name+"|leafref-in-grouping", fmt.Sprintf("%s grouping lg { leaf lr { type leafref { path \"%s\"; } } } container lc { uses lg; }", t.def, t.path))
		add(t.name+"|key", fmt.Sprintf("list kl { key tg; %s }", t.def))
		add(t.name+"|key-second", fmt.Sprintf("list kl { key \"k tg\"; leaf k { type string; } %s }", t.def))
		add(t.name+"|unique", fmt.Sprintf("list kl { key k; unique \"%s\"; leaf k { type string; } %s }", t.rel, t.def))
		add(t.name+"|choice-default", fmt.Sprintf("choice dch { default tg; %s }", t.def))
		add(t.name+"|deviation-twice", fmt.Sprintf("%s deviation \"%s\" { deviate not-supported; } deviation \"%s\" { deviate add { units u; } }", t.def, t.path, t.path))
		add(t.name+"|augment-then-deviate", fmt.Sprintf("%s augment \"%s\" { leaf al { type string; } } deviation \"%s/al\" { deviate not-supported; }", t.def, t.path, t.path))
	}
	return out
}

func c14Matrix(twice bool) []*load.Case {
	const pre = "module hostm { yang-version 1.1; namespace \"urn:hostm\"; prefix hostm; "
	const common = " extension extx { argument a; } typedef tdy { type string; } feature fx; feature fy; identity idx; grouping gx { leaf gxl { type string; } } grouping gc { container gcc { leaf gcl { type string; } } } leaf lx { type string; } container c { leaf cl { type string; } } }"
	files := map[string]string{
		"impx": "module impx { namespace \"urn:impx\"; prefix ix; typedef t { type string; } grouping g { leaf x { type string; } } }",
		"incx": "submodule incx { belongs-to hostm { prefix hm; } leaf incl { type string; } }",
	}
	hosts := map[string]string{}
	for h, t := range c14Hosts {
		hosts[h] = t
	}
	for h, t := range c14NestedHosts() {
		hosts[h] = t
	}
	var hostNames []string
	for h := range hosts {
		hostNames = append(hostNames, h)
	}
	sort.Strings(hostNames)
	var out []*load.Case
	for _, h := range hostNames {
		for si, s := range c14Statements {
			body := fmt.Sprintf(hosts[h], s)
			kw := s
			if i := strings.IndexAny(s, " ;"); i > 0 {
				kw = s[:i]
			}
			out = append(out, &load.Case{ID: fmt.Sprintf("matrix|%s|%s#%d", h, kw, si), Main: pre + body + common, Files: files, Order: load.OrderSpec{Mode: "sorted"}})
			if twice {
				// the same statement twice in one block (most are allowed once only)
				out = append(out, &load.Case{ID: fmt.Sprintf("matrix2|%s|%s#%d", h, kw, si), Main: pre + fmt.Sprintf(hosts[h], s+" "+s) + common, Files: files, Order: load.OrderSpec{Mode: "sorted"}})
			}
		}
	}
	return out
}
