package checks

import (
	"bytes"
	"encoding/json"
	"errors"
	"fmt"
	"io"
	"strings"
	"time"

	"github.com/freeconf/yang/meta"
	"github.com/freeconf/yang/node"
	"github.com/freeconf/yang/nodeutil"

	"verif/sim/kit"
	"verif/sim/model"
	"verif/sim/schema"
	"verif/sim/sess"
	"verif/sim/simnode"
	"verif/sim/store"
)

// C12 — every node told an edit begins is told it ended, and node errors
// surface. Fault enumeration: for every scenario the fault-free callback trace
// is recorded, then the scenario is re-run once per (callback position,
// applicable fault kind).

type c12Scenario struct {
	Schema *schema.Node `json:"schema"`
	Store  string       `json:"store"`
	Init   *model.Tree  `json:"init"`
	Op     sess.Op      `json:"op"`
	Mode   string       `json:"mode"`             // from into jsonwtr xmlwtr
	Extend bool         `json:"extend,omitempty"` // target root (and every descendant) sits inside a pass-through nodeutil.Extend
	Outer  string       `json:"outer,omitempty"`  // or inside nodeutil.Dump / nodeutil.Trace ("dump", "trace"): the library's logging pass-through wrappers
	// Trigger installs a node.Trigger on the target's browser (the trigger table is
	// consulted before the node on begin, after it on end); TrigFail makes its
	// n-th call fail (-1: never). Triggers are not nodes: with a failing trigger
	// only pairing, audience and no-panic are demanded.
	Trigger  bool            `json:"trigger,omitempty"`
	TrigFail int             `json:"trig_fail,omitempty"`
	Faults   []simnode.Fault `json:"faults,omitempty"`
}

func (sc *c12Scenario) bind() error {
	sc.Schema.Link()
	sc.Init.Bind(sc.Schema)
	return sc.Op.Bind(sc.Schema)
}

type c12Exec struct {
	trigCalls int    // calls the trigger saw during the operation
	trigFault string // "trigger-OnBegin" / "trigger-OnEnd" when the trigger failed
	ss        *simnode.Session
	res       sess.Result
	start     int // first event of the operation proper
	log       *kit.Log
	harness   error
}

func c12Run(env *sess.Env, sc *c12Scenario, faults []simnode.Fault) c12Exec {
	log := kit.NewLog(200)
	ss := simnode.NewSession(log, faults)
	st, err := store.New(sc.Store)
	if err != nil {
		return c12Exec{harness: err}
	}
	if err := st.Load(sc.Schema, sc.Init); err != nil {
		return c12Exec{harness: err}
	}
	ex := c12Exec{ss: ss, log: log}
	ss.OnOpStart = func() { ex.start = len(ss.Events) }
	if sc.Trigger {
		exp := &ex
		ss.OnBrowser = func(b interface{}) {
			call := func(what string) error {
				n := exp.trigCalls
				exp.trigCalls++
				log.Add("trigger %s #%d", what, n)
				if sc.TrigFail > 0 && n == sc.TrigFail-1 {
					exp.trigFault = "trigger-" + what
					return simnode.ErrInjected
				}
				return nil
			}
			b.(*node.Browser).Triggers.Install(&node.Trigger{
				OnBegin: func(t *node.Trigger, r node.NodeRequest) error { return call("OnBegin") },
				OnEnd:   func(t *node.Trigger, r node.NodeRequest) error { return call("OnEnd") },
			})
		}
	}
	switch sc.Outer {
	case "dump":
		ss.Outer = func(n interface{}) interface{} { return nodeutil.Dump(n.(node.Node), io.Discard) }
	case "trace":
		ss.Outer = func(n interface{}) interface{} { return nodeutil.Trace(n.(node.Node), io.Discard) }
	}
	if sc.Extend {
		// the library's own delegating node between the editor and the recording
		// wrapper: whatever it fails to forward shows up as a pairing violation
		ss.Outer = func(n interface{}) interface{} {
			return &nodeutil.Extend{
				Base: n.(node.Node),
				OnExtend: func(e *nodeutil.Extend, sel *node.Selection, m meta.HasDefinitions, child node.Node) (node.Node, error) {
					return e.Extend(child), nil
				},
			}
		}
	}
	switch sc.Mode {
	case "from":
		ex.res = sess.Exec(env, st, sc.Op, ss, nil)
	case "into":
		full := sc.Init.Clone()
		// place payload: the source browser holds the target's tree merged with the payload
		var out model.Outcome
		if loc, ok := full.Resolve(sc.Op.At); ok {
			if loc.Tree != nil && sc.Op.Tree != nil {
				model.MergeTree(loc.Tree, sc.Op.Tree, model.Upsert, false, &out)
			} else if loc.List != nil && sc.Op.List != nil {
				model.MergeList(loc.List, sc.Op.List, model.Upsert, &out)
			}
		}
		ex.res = sess.ExecInto(env, st, sc.Op, full, ss)
	case "jsonwtr", "xmlwtr":
		ex.res = c12Writer(env, st, sc, ss)
	default:
		ex.harness = fmt.Errorf("unknown mode %s", sc.Mode)
	}
	return ex
}

// c12Writer exports the store at the entry point into one of the library's
// own writer nodes, wrapped: their EndEdit does real work (closing brackets,
// flushing).
func c12Writer(env *sess.Env, st store.Store, sc *c12Scenario, ss *simnode.Session) (res sess.Result) {
	defer func() {
		if p := recover(); p != nil {
			res.Panic = p
			res.PanicAt = sess.TopRepoFrame()
			res.Stack = sess.ShortStack()
		}
	}()
	root := ss.Wrap(st.Root(), "S", nil, "")
	b := node.NewBrowser(env.Mod, root)
	sel, err := sess.FindSel(b.Root(), sc.Op.At)
	if err != nil {
		res.Err = err
		return
	}
	if sel == nil {
		res.NotFound = true
		return
	}
	var buf bytes.Buffer
	var target node.Node
	if sc.Mode == "jsonwtr" {
		w := &nodeutil.JSONWtr{Out: &buf}
		target = w.Node()
	} else {
		w := nodeutil.NewXMLWtr(&buf)
		target = w.Node()
	}
	target = ss.Wrap(target, "T", nil, "")
	if ss.OnOpStart != nil {
		ss.OnOpStart()
	}
	if sc.Op.Kind == "insert" {
		res.Err = sel.InsertInto(target)
	} else {
		res.Err = sel.UpsertInto(target)
	}
	return
}

// ---------------------------------------------------------------- oracle

type c12Finding struct {
	oracle string
	key    string
	detail string
}

// roles relative to the outermost edit root of the operation.
func c12Roles(ex *c12Exec) (rootW *simnode.W, role func(id int) string) {
	evs := ex.ss.Events
	for i := ex.start; i < len(evs); i++ {
		e := evs[i]
		if e.Call == "BeginEdit" && e.Root && e.Source == e.Node {
			rootW = ex.ss.Nodes[e.Node]
			break
		}
	}
	role = func(id int) string {
		w := ex.ss.Nodes[id]
		if w.Side == "S" {
			return "source"
		}
		if rootW == nil {
			return "target"
		}
		if w == rootW {
			return "editroot"
		}
		if w.IsAncestorOf(rootW) {
			return "ancestor"
		}
		if rootW.IsAncestorOf(w) {
			return "descendant"
		}
		return "other"
	}
	return
}

func c12Oracle(ex *c12Exec, expectBubble bool) []c12Finding {
	var out []c12Finding
	evs := ex.ss.Events
	_, role := c12Roles(ex)

	// what failed (for finding identity)
	faultDesc := "none"
	var faultEv *simnode.Event
	if len(ex.ss.Fired) > 0 {
		f := ex.ss.Fired[0]
		faultEv = &f
		wr := ""
		if f.IsWrite() {
			wr = "-write"
		}
		faultDesc = fmt.Sprintf("%s%s@%s/%s", f.Call, wr, role(f.Node), f.Fault)
		if f.Call == "BeginEdit" || f.Call == "EndEdit" {
			if f.Source != f.Node {
				faultDesc += "/bubbled"
			}
		}
	}
	if faultEv != nil && faultEv.Call == "Choose" && faultEv.Side == "T" {
		faultDesc = "Choose@target/error"
	}
	if faultEv == nil && ex.trigFault != "" {
		faultDesc = ex.trigFault
	}
	add := func(oracle, what, detail string) {
		out = append(out, c12Finding{oracle: oracle, key: fmt.Sprintf("%s:%s:fault=%s", oracle, what, faultDesc), detail: detail})
	}

	// 5. no panic
	if ex.res.Panic != nil {
		add("panic", ex.res.PanicAt, fmt.Sprintf("panic %v at %s [%s]", ex.res.Panic, ex.res.PanicAt, ex.res.Stack))
	}

	// 1. pairing, 2. audience, writes inside brackets
	stacks := map[int][]simnode.Event{}
	for i := ex.start; i < len(evs); i++ {
		e := evs[i]
		switch e.Call {
		case "BeginEdit", "EndEdit":
			if e.Side != "T" {
				add("audience", "source-node-notified", fmt.Sprintf("source-side node told %s: %s", e.Call, e))
			}
			if e.Source != e.Node && e.Source >= 0 {
				src := ex.ss.Nodes[e.Source]
				me := ex.ss.Nodes[e.Node]
				if !me.IsAncestorOf(src) {
					add("audience", "non-ancestor-notified", fmt.Sprintf("%s sent to a node that is not an ancestor of the edited node: %s", e.Call, e))
				}
				if e.Root {
					add("audience", "ancestor-flagged-root", fmt.Sprintf("bubbled %s carries EditRoot: %s", e.Call, e))
				}
			}
		}
		switch e.Call {
		case "BeginEdit":
			// what the node is told about itself: New exactly when this edit created it
			if e.Side == "T" && e.Source == e.Node && !e.Delete {
				if w := ex.ss.Nodes[e.Node]; w.Created != e.New && (w.Parent != nil || e.New) {
					add("audience", "new-flag-wrong@"+role(e.Node), fmt.Sprintf("node %s#%d was %s by this edit but is told BeginEdit with New=%v: %s", w.Side, w.ID, map[bool]string{true: "created", false: "found, not created,"}[w.Created], e.New, e))
				}
			}
			if e.Err == "" {
				stacks[e.Node] = append(stacks[e.Node], e)
			}
		case "EndEdit":
			st := stacks[e.Node]
			if len(st) == 0 {
				add("pairing", "end-without-begin@"+role(e.Node), fmt.Sprintf("EndEdit without an open BeginEdit: %s", e))
				continue
			}
			// the open begin this end answers: the most recent one with the same flags (a
			// node can be told twice that one edit began - as the holder of the leaf an
			// edit is rooted at and as that leaf selection's parent - and the statement
			// does not say in which order the two are ended)
			k := len(st) - 1
			for j := len(st) - 1; j >= 0; j-- {
				if st[j].New == e.New && st[j].Delete == e.Delete && st[j].Root == e.Root && st[j].Source == e.Source {
					k = j
					break
				}
			}
			top := st[k]
			stacks[e.Node] = append(append([]simnode.Event(nil), st[:k]...), st[k+1:]...)
			if top.New != e.New || top.Delete != e.Delete || top.Root != e.Root || top.Source != e.Source {
				add("pairing", "flags-differ@"+role(e.Node), fmt.Sprintf("EndEdit flags differ from its BeginEdit: begin %s / end %s", top, e))
			}
		default:
			if e.IsWrite() && e.Side == "T" && len(stacks[e.Node]) == 0 {
				add("audience", "write-outside-edit@"+role(e.Node), fmt.Sprintf("write issued to a node that was not told an edit began: %s", e))
			}
			if e.IsWrite() && e.Side == "S" {
				add("audience", "write-to-source", fmt.Sprintf("write issued to the source side: %s", e))
			}
		}
	}
	for id := 0; id < len(ex.ss.Nodes); id++ {
		for _, o := range stacks[id] {
			add("pairing", "begin-without-end@"+role(id), fmt.Sprintf("node %s#%d (%s) was told BeginEdit (%s) and never EndEdit before the call returned", ex.ss.Nodes[id].Side, id, role(id), o))
		}
	}

	// 2b. completeness of bubbling: after a root begin every ancestor is told,
	// in whatever order, unless a bubbled BeginEdit of that edit failed (the
	// remaining ancestors are then rightly not told) or a trigger stopped it.
	if expectBubble && ex.trigFault == "" {
		for i := ex.start; i < len(evs); i++ {
			e := evs[i]
			if e.Call == "BeginEdit" && e.Root && e.Source == e.Node && e.Err == "" {
				w := ex.ss.Nodes[e.Node]
				told := map[int]bool{}
				failed := false
				for j := i + 1; j < len(evs); j++ {
					n := evs[j]
					if n.Call == "BeginEdit" && n.Source == w.ID && !n.Root {
						if n.Err != "" {
							failed = true
						}
						told[n.Node] = true
					}
					if n.Call == "EndEdit" && n.Node == w.ID && n.Source == w.ID {
						break
					}
				}
				if failed {
					continue
				}
				for p := w.Parent; p != nil; p = p.Parent {
					if !told[p.ID] {
						add("audience", "ancestor-not-told", fmt.Sprintf("after %s the ancestor #%d was never told BeginEdit", e, p.ID))
						break
					}
				}
			}
		}
	}

	// 3. surfacing, 4. quiescence
	if faultEv != nil {
		if ex.res.Panic == nil {
			if ex.res.Err == nil {
				add("surfacing", "error-lost", fmt.Sprintf("callback %s failed but the API call returned nil", *faultEv))
			} else if faultEv.Fault != simnode.FRefuse && !errors.Is(ex.res.Err, simnode.ErrInjected) {
				add("surfacing", "error-not-wrapped", fmt.Sprintf("callback %s failed; the API returned %q which does not wrap the node's error", *faultEv, ex.res.Err))
			}
		}
		for i := faultEv.Seq + 1; i < len(evs); i++ {
			if evs[i].IsWrite() {
				add("quiescence", "write-after-failure", fmt.Sprintf("after %s failed a write was still issued: %s", *faultEv, evs[i]))
				break
			}
		}
	} else if ex.res.Panic == nil && ex.res.Err != nil && ex.res.Class() < 0 && !ex.res.NotFound {
		// fault-free run returned an unexpected error class: not C12's business unless it hides a callback error
		_ = 0
	}
	return out
}

// ---------------------------------------------------------------- scenario generation

var c12Stores = []string{"nstruct0", "nacc", "rmap", "ctl", "nstruct", "rstruct", "nmap"}

func c12Gen(r *kit.Rng) *c12Scenario {
	sk := store.Variant(r, c12Stores[r.Intn(len(c12Stores))])
	st, _ := store.New(sk)
	caps := st.Caps()
	caps.MaxNodes = 18
	mode := []string{"from", "from", "from", "into", "jsonwtr", "xmlwtr"}[r.Intn(6)]
	s := schema.Generate(r, caps, "m", r.Chance(1, 2), true)
	o := st.GenOpts()
	o.Density = 65
	init := model.Random(r, s, o, 0)
	g := &opGen{r: r, o: o, srcs: []string{"json", "xml", "mnode"}}
	switch mode {
	case "from":
		g.kinds = []string{"upsert", "upsert", "upsert", "insert", "update", "replace", "delete", "delete"}
	case "into":
		g.kinds = []string{"upsert", "insert", "update"}
		g.srcs = []string{"mnode"}
	default:
		g.kinds = []string{"upsert", "insert"}
		g.srcs = []string{"mnode"}
	}
	op := g.next(init)
	if mode != "from" && mode != "into" {
		op.Tree, op.List = nil, nil
	}
	if mode == "into" && op.List != nil && len(op.At) > 0 && r.Chance(1, 2) {
		// the source is a list selection carrying a where constraint that every entry
		// satisfies: the predicate is evaluated by reading the source's leaves, and a
		// read that fails there must surface like any other
		if keys := op.List.S.Keys; len(keys) > 0 {
			op.Where = keys[0] + "!%3D'zz-no-such-key'"
		}
	}
	if mode == "from" && r.Chance(1, 8) {
		// an edit rooted at a leaf selection: the node holding the leaf (begun twice) and its ancestors
		var cands []model.Path
		for _, p := range append([]model.Path{nil}, init.AllPaths()...) {
			if loc, ok := init.Resolve(p); ok && loc.Tree != nil {
				for _, c := range loc.Tree.S.DataChildren() {
					if c.Kind == schema.Leaf && !c.IsKey() && loc.Tree.Has(c.Name) {
						cands = append(cands, p)
						break
					}
				}
			}
		}
		if len(cands) > 0 {
			at := cands[r.Intn(len(cands))]
			loc, _ := init.Resolve(at)
			var leaves []*schema.Node
			for _, c := range loc.Tree.S.DataChildren() {
				if c.Kind == schema.Leaf && !c.IsKey() && loc.Tree.Has(c.Name) {
					leaves = append(leaves, c)
				}
			}
			lf := leaves[r.Intn(len(leaves))]
			pt := model.New(loc.Tree.S)
			pt.Leaf[lf.Name] = model.Value(r, lf, o)
			op = sess.Op{Kind: r.Pick([]string{"upsert", "update"}), At: at, Leaf: lf.Name, SrcKind: r.Pick([]string{"json", "xml", "mnode"}), Tree: pt}
		}
	}
	outer := ""
	if mode == "from" && r.Chance(1, 6) {
		outer = r.Pick([]string{"dump", "trace"})
	}
	return &c12Scenario{Schema: s, Store: sk, Init: init, Op: op, Mode: mode, Extend: outer == "" && mode == "from" && r.Chance(1, 4), Outer: outer,
		Trigger: (mode == "from" || mode == "into") && r.Chance(1, 5)}
}

func c12Kinds(e simnode.Event) []simnode.FaultKind {
	ks := []simnode.FaultKind{simnode.FError}
	if (e.Call == "Child" || e.Call == "Next") && e.New {
		ks = append(ks, simnode.FRefuse, simnode.FAfterEffect)
	} else if e.IsWrite() {
		ks = append(ks, simnode.FAfterEffect)
	}
	return ks
}

// c12Explore runs the whole fault enumeration of one scenario.
func c12Explore(sc *c12Scenario, seed uint64, pairs int, r *kit.Rng) (out RunOut, sample map[string]interface{}) {
	out.Stats = kit.Counter{}
	env, err := sess.Compile(sc.Schema)
	if err != nil {
		out.HarnessErr = err.Error()
		return
	}
	base := c12Run(env, sc, nil)
	if base.harness != nil {
		out.HarnessErr = base.harness.Error()
		return
	}
	out.Evals++
	out.Steps += int64(len(base.ss.Events))
	expectBubble := sc.Mode == "from"
	mk := func(ex *c12Exec, f c12Finding, faults []simnode.Fault) *kit.Violation {
		s2 := *sc
		s2.Faults = faults
		return &kit.Violation{Property: "C12", Oracle: f.oracle, Key: f.key, Detail: f.detail,
			Seed: seed, LogHash: ex.log.HashHex(), LogTail: ex.log.Lines, Scenario: sess.MarshalScenario(&s2)}
	}
	for _, f := range c12Oracle(&base, expectBubble) {
		out.Violations = append(out.Violations, mk(&base, f, nil))
	}
	n := len(base.ss.Events)
	out.Stats.Inc("scenarios")
	out.Stats.Inc("mode:" + sc.Mode)
	if sc.Extend {
		out.Stats.Inc("target-inside-nodeutil.Extend")
	}
	if sc.Outer != "" {
		out.Stats.Inc("target-inside-nodeutil." + sc.Outer)
	}
	out.Stats.Inc("store:" + store.KeyName(sc.Store))
	out.Stats.Inc("op:" + sc.Op.Kind)
	if sc.Op.Leaf != "" {
		out.Stats.Inc("probe:edit-rooted-at-a-leaf-selection")
	}
	if sc.Op.Where != "" {
		out.Stats.Inc("probe:source-selection-constrained-by-where")
	}
	if base.res.Err != nil {
		out.Stats.Inc("baseline-returned-error")
	}
	if n-base.start > 400 {
		out.Stats.Inc("trace-too-long-skipped")
		return
	}
	for k := base.start; k < n; k++ {
		for _, kind := range c12Kinds(base.ss.Events[k]) {
			faults := []simnode.Fault{{At: k, Kind: kind}}
			ex := c12Run(env, sc, faults)
			out.Evals++
			out.Steps += int64(len(ex.ss.Events))
			if len(ex.ss.Fired) == 0 {
				out.HarnessErr = fmt.Sprintf("fault at %d did not fire (trace diverged before the fault: nondeterminism)", k)
				return
			}
			fe := ex.ss.Fired[0]
			out.Stats.Inc("fault:" + string(fe.Fault) + ":" + fe.Call)
			if fe.Side == "S" {
				out.Stats.Inc("fault-on-source-side")
			}
			if fe.Call == "EndEdit" || fe.Call == "BeginEdit" {
				if fe.Source != fe.Node {
					out.Stats.Inc("probe:fault-in-bubbled-" + fe.Call)
				}
			}
			out.Prints = append(out.Prints, ex.log.Hash())
			for _, f := range c12Oracle(&ex, expectBubble) {
				out.Violations = append(out.Violations, mk(&ex, f, faults))
			}
		}
	}
	// a failing trigger at every one of its calls
	if sc.Trigger {
		out.Stats.Inc("probe:trigger-installed")
		for k := 1; k <= base.trigCalls && k <= 60; k++ {
			s2 := *sc
			s2.TrigFail = k
			ex := c12Run(env, &s2, nil)
			out.Evals++
			out.Steps += int64(len(ex.ss.Events))
			out.Stats.Inc("fault:" + ex.trigFault)
			out.Prints = append(out.Prints, ex.log.Hash())
			for _, f := range c12Oracle(&ex, expectBubble) {
				v := mk(&ex, f, nil)
				v.Scenario = sess.MarshalScenario(&s2)
				out.Violations = append(out.Violations, v)
			}
		}
	}
	// sampled fault pairs: the second on an EndEdit that still runs after the first
	for p := 0; p < pairs && n > base.start; p++ {
		k1 := base.start + r.Intn(n-base.start)
		if e := base.ss.Events[k1]; e.Call == "Choose" && e.Side == "T" {
			continue // the documented fall-through (known finding), nothing new to learn from pairing it
		}
		kind := c12Kinds(base.ss.Events[k1])
		f1 := simnode.Fault{At: k1, Kind: kind[r.Intn(len(kind))]}
		ex1 := c12Run(env, sc, []simnode.Fault{f1})
		out.Evals++
		var ends []int
		for i := k1 + 1; i < len(ex1.ss.Events); i++ {
			if ex1.ss.Events[i].Call == "EndEdit" {
				ends = append(ends, i)
			}
		}
		if len(ends) == 0 {
			continue
		}
		f2 := simnode.Fault{At: ends[r.Intn(len(ends))], Kind: simnode.FError}
		faults := []simnode.Fault{f1, f2}
		ex := c12Run(env, sc, faults)
		out.Evals++
		out.Stats.Inc("fault-pairs")
		out.Prints = append(out.Prints, ex.log.Hash())
		for _, f := range c12Oracle(&ex, expectBubble) {
			f.key = "pair:" + f.key
			out.Violations = append(out.Violations, mk(&ex, f, faults))
		}
	}
	var tail []string
	for i := base.start; i < n && i < base.start+12; i++ {
		tail = append(tail, base.ss.Events[i].String())
	}
	sample = map[string]interface{}{
		"store": sc.Store, "mode": sc.Mode, "op": sc.Op.String(), "initial_tree": sc.Init.String(),
		"fault_free_callbacks": n - base.start, "first_callbacks": tail,
	}
	return
}

func init() {
	Registry["C12"] = func() *Check {
		c := &Check{
			Property: "C12",
			Level:    "fault_enumeration",
			Rule: "one run = one seeded edit scenario (store kind x generated schema x initial tree x operation x direction); its fault-free callback trace is recorded and the scenario is re-executed once per (callback position, applicable fault kind: error / refuse / error-after-effect), exhaustively; thorough adds sampled fault pairs. " +
				"evaluations counts executions; distinct_nontrivial counts distinct event-log fingerprints among executions in which the fault fired",
			Assume: []string{
				"the recording wrapper (harness code) forwards callbacks faithfully; node identity is wrapper identity",
				"stores built with reflect.StructOf have no accessor methods",
				"scenarios are sampled; fault positions within a scenario are enumerated exhaustively",
			},
			QuickRuns:    3000,
			ThoroughRuns: 1 << 30,
			ThoroughTime: 10 * time.Minute,
			Exhaustive:   false,
			Components: map[string]string{
				"editor, Selection, Browser (node/*)": "real",
				"stores rmap/nmap/nstruct/rstruct/nacc (nodeutil.Reflect, .Node; optionally with pass-through hooks)": "real",
				"JSON/XML readers as sources, JSONWtr/XMLWtr as targets":                                              "real",
				"control store / model-backed source (mnode)":                                                         "harness",
				"recording fault-injecting node wrapper (simnode)":                                                    "harness",
			},
		}
		c.Run = func(i int, seed uint64, tier string) RunOut {
			r := kit.NewRng(seed)
			sc := c12Gen(r)
			pairs := 0
			if tier == "thorough" {
				pairs = 6
			}
			out, sample := c12Explore(sc, seed, pairs, r)
			if i < 3 {
				out.Sample = sample
			}
			return out
		}
		c.Replay = func(raw json.RawMessage) ([]*kit.Violation, error) {
			var sc c12Scenario
			if err := json.Unmarshal(raw, &sc); err != nil {
				return nil, err
			}
			if err := sc.bind(); err != nil {
				return nil, err
			}
			return c12Single(&sc)
		}
		c.Minimise = c12Minimise
		c.Extra = func(cov map[string]interface{}, outs []RunOut) {
			cov["exhaustive_within_scenario"] = true
			cov["fault_kinds"] = "error, refuse (creating Child/Next returns nil,nil), error-after-effect (delegate then fail)"
		}
		return c
	}
}

// c12Single executes exactly the scenario's fault list.
func c12Single(sc *c12Scenario) ([]*kit.Violation, error) {
	env, err := sess.Compile(sc.Schema)
	if err != nil {
		return nil, err
	}
	ex := c12Run(env, sc, sc.Faults)
	if ex.harness != nil {
		return nil, ex.harness
	}
	var out []*kit.Violation
	for _, f := range c12Oracle(&ex, sc.Mode == "from") {
		key := f.key
		if len(sc.Faults) > 1 {
			key = "pair:" + key
		}
		out = append(out, &kit.Violation{Property: "C12", Oracle: f.oracle, Key: key, Detail: f.detail,
			LogHash: ex.log.HashHex(), LogTail: ex.log.Lines, Scenario: sess.MarshalScenario(sc)})
	}
	return out, nil
}

// c12Minimise shrinks the initial tree and the payload while some fault
// position still produces the same violation key.
func c12Minimise(v *kit.Violation) *kit.Violation {
	var sc c12Scenario
	if json.Unmarshal(v.Scenario, &sc) != nil || sc.bind() != nil {
		return nil
	}
	reproduce := func(c *c12Scenario) *kit.Violation {
		if len(c.Faults) > 1 {
			vs, _ := c12Single(c)
			for _, x := range vs {
				if x.Key == v.Key {
					return x
				}
			}
			return nil
		}
		c2 := *c
		c2.Faults = nil
		out, _ := c12Explore(&c2, v.Seed, 0, nil)
		for _, x := range out.Violations {
			if x.Key == v.Key {
				return x
			}
		}
		return nil
	}
	best := reproduce(&sc)
	if best == nil {
		return nil
	}
	budget := kit.NewBudget(20 * time.Second)
	improved := true
	for improved && !budget.Exceeded() {
		improved = false
		for _, cand := range c12Shrinks(&sc) {
			if budget.Exceeded() {
				break
			}
			if x := reproduce(cand); x != nil {
				sc = *cand
				best = x
				improved = true
				break
			}
		}
	}
	best.Seed = v.Seed
	best.Minimised = true
	best.Original = v.Scenario
	if strings.TrimSpace(string(best.Scenario)) == "" {
		return nil
	}
	return best
}

func c12Shrinks(sc *c12Scenario) []*c12Scenario {
	var out []*c12Scenario
	for _, t := range treeShrinks(sc.Init) {
		c := *sc
		c.Init = t
		// the entry point must survive
		if _, ok := t.Resolve(sc.Op.At); !ok {
			continue
		}
		out = append(out, &c)
	}
	if sc.Op.Tree != nil {
		for _, t := range treeShrinks(sc.Op.Tree) {
			c := *sc
			c.Op.Tree = t
			out = append(out, &c)
		}
	}
	if sc.Op.List != nil && len(sc.Op.List.Entries) > 1 {
		for i := range sc.Op.List.Entries {
			c := *sc
			l := &model.ListT{S: sc.Op.List.S}
			for j, e := range sc.Op.List.Entries {
				if j != i {
					l.Entries = append(l.Entries, e)
				}
			}
			c.Op.List = l
			out = append(out, &c)
		}
	}
	return out
}

// treeShrinks returns copies of t each with one element removed (key leaves
// stay).
func treeShrinks(t *model.Tree) []*model.Tree {
	var out []*model.Tree
	var paths [][]string // each: sequence of selectors to the element to drop
	var walk func(cur *model.Tree, pre []string)
	walk = func(cur *model.Tree, pre []string) {
		for _, c := range cur.S.DataChildren() {
			switch c.Kind {
			case schema.Leaf:
				if _, ok := cur.Leaf[c.Name]; ok && !c.IsKey() {
					paths = append(paths, append(append([]string(nil), pre...), "leaf:"+c.Name))
				}
			case schema.LeafList:
				if _, ok := cur.LL[c.Name]; ok {
					paths = append(paths, append(append([]string(nil), pre...), "leaf:"+c.Name))
				}
			case schema.Container:
				if v, ok := cur.Cont[c.Name]; ok {
					paths = append(paths, append(append([]string(nil), pre...), "node:"+c.Name))
					walk(v, append(append([]string(nil), pre...), "cont:"+c.Name))
				}
			case schema.List:
				if v, ok := cur.List[c.Name]; ok {
					paths = append(paths, append(append([]string(nil), pre...), "node:"+c.Name))
					for i, e := range v.Entries {
						paths = append(paths, append(append([]string(nil), pre...), fmt.Sprintf("entry:%s:%d", c.Name, i)))
						walk(e, append(append([]string(nil), pre...), fmt.Sprintf("in:%s:%d", c.Name, i)))
					}
				}
			}
		}
	}
	walk(t, nil)
	for _, p := range paths {
		c := t.Clone()
		cur := c
		ok := true
		for i, s := range p {
			last := i == len(p)-1
			parts := strings.Split(s, ":")
			switch parts[0] {
			case "cont":
				cur = cur.Cont[parts[1]]
			case "in":
				var idx int
				fmt.Sscan(parts[2], &idx)
				cur = cur.List[parts[1]].Entries[idx]
			case "leaf", "node":
				if last {
					cur.Remove(parts[1])
				}
			case "entry":
				var idx int
				fmt.Sscan(parts[2], &idx)
				l := cur.List[parts[1]]
				l.Entries = append(l.Entries[:idx:idx], l.Entries[idx+1:]...)
			}
			if cur == nil {
				ok = false
				break
			}
		}
		if ok {
			out = append(out, c)
		}
	}
	return out
}
