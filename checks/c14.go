//go:build verif

package checks

import (
	"encoding/json"
	"fmt"
	"os"
	"path/filepath"
	"regexp"
	"sort"
	"strings"
	"time"

	"verif/sim/kit"
	"verif/sim/load"
	"verif/sim/modset"
	"verif/sim/schema"
)

// C14 — loading any text terminates with a module or an error, for any
// behaviour of the opener. E2: real lexer/grammar/builder/resolver/compiler
// over a simulated file system in supervised worker processes.

type corpusFile struct {
	name, dir, text string
}

func loadCorpus() ([]corpusFile, map[string]map[string]string) {
	repo := kit.RepoRoot()
	var files []corpusFile
	byDir := map[string]map[string]string{}
	for _, root := range []string{"parser/testdata", "yang", "testdata", "nodeutil/testdata"} {
		filepath.Walk(filepath.Join(repo, root), func(p string, info os.FileInfo, err error) error {
			if err != nil || info.IsDir() || !strings.HasSuffix(p, ".yang") {
				return nil
			}
			b, err := os.ReadFile(p)
			if err != nil {
				return nil
			}
			dir := filepath.Dir(p)
			name := strings.TrimSuffix(filepath.Base(p), ".yang")
			files = append(files, corpusFile{name: name, dir: dir, text: string(b)})
			if byDir[dir] == nil {
				byDir[dir] = map[string]string{}
			}
			byDir[dir][name] = string(b)
			return nil
		})
	}
	sort.Slice(files, func(i, j int) bool { return files[i].dir+"/"+files[i].name < files[j].dir+"/"+files[j].name })
	return files, byDir
}

// yangTokens returns [start,end) spans of tokens (strings, words, punctuation).
func yangTokens(s string) [][2]int {
	var out [][2]int
	i := 0
	for i < len(s) {
		c := s[i]
		switch {
		case c == ' ' || c == '\t' || c == '\n' || c == '\r':
			i++
		case c == '/' && i+1 < len(s) && s[i+1] == '/':
			for i < len(s) && s[i] != '\n' {
				i++
			}
		case c == '/' && i+1 < len(s) && s[i+1] == '*':
			j := strings.Index(s[i+2:], "*/")
			if j < 0 {
				i = len(s)
			} else {
				i += j + 4
			}
		case c == '"':
			j := i + 1
			for j < len(s) && s[j] != '"' {
				if s[j] == '\\' {
					j++
				}
				j++
			}
			if j >= len(s) {
				j = len(s) - 1
			}
			out = append(out, [2]int{i, j + 1})
			i = j + 1
		case c == '\'':
			j := strings.IndexByte(s[i+1:], '\'')
			if j < 0 {
				out = append(out, [2]int{i, len(s)})
				i = len(s)
			} else {
				out = append(out, [2]int{i, i + j + 2})
				i += j + 2
			}
		case c == '{' || c == '}' || c == ';' || c == '+':
			out = append(out, [2]int{i, i + 1})
			i++
		default:
			j := i
			for j < len(s) && !strings.ContainsRune(" \t\r\n{};\"'", rune(s[j])) {
				if s[j] == '/' && j+1 < len(s) && (s[j+1] == '/' || s[j+1] == '*') {
					break
				}
				j++
			}
			if j == i {
				j = i + 1
			}
			out = append(out, [2]int{i, j})
			i = j
		}
	}
	return out
}

// c14Small are short modules dense in the constructs the lexer treats
// specially: escapes in double-quoted strings, single quotes, concatenation,
// comments of both kinds next to tokens, extension statements with arguments.
var c14Small = []string{
	"module e { namespace \"urn:e\"; prefix e; description \"a \\\"quoted\\\" back\\\\slash \\n newline \\t tab\"; leaf l { type string { pattern \"[a-z]\\\\d+\"; } default \"x\\\"y\"; } }",
	"module f { namespace 'urn:f'; prefix f; /* block */ description 'single \\ quoted' + \" and \\\\ double\" + 'x'; // line comment\n leaf m { type string; } // last\n}",
	"module g { namespace \"urn:g\"; prefix g; extension x { argument a; } g:x \"arg \\\" esc\"; g:x plain; g:x 12 { g:x 'q'; } leaf n { g:x \"y\\\\\"; type int32 { range \"1..10\"; } } }",
	"module h{namespace \"urn:h\";prefix h;container c{leaf a{type string;}list l{key \"k\";leaf k{type string;}}}rpc r{input{leaf i{type string;}}}notification n{leaf v{type string;}}}",
}

var substPool = []string{"{", "}", ";", "\"", "'", "+", "module", "leaf", "type", "x", "uses", "grouping", "import", "/*", "//", "\"a", "1", ""}

type c14Plan struct {
	cases []*load.Case
	kind  map[string]string
}

func relID(p string) string {
	return strings.TrimPrefix(p, kit.RepoRoot()+"/")
}

// c14Pathological builds module sets with reference cycles, deep nesting and
// long token runs.
func c14Pathological() []*load.Case {
	var out []*load.Case
	add := func(id, main string, files map[string]string) {
		out = append(out, &load.Case{ID: "patho|" + id, Main: main, Files: files, Order: load.OrderSpec{Mode: "sorted"}})
	}
	hdr := func(n string) string {
		return "module " + n + " { namespace \"urn:" + n + "\"; prefix " + n + "; revision 2024-01-01; "
	}
	add("self-import", hdr("a")+"import a { prefix x; } leaf l { type string; } }", map[string]string{"a": hdr("a") + "import a { prefix x; } leaf l { type string; } }"})
	add("mutual-import", hdr("a")+"import b { prefix b; } leaf l { type string; } }",
		map[string]string{"a": hdr("a") + "import b { prefix b; } leaf l { type string; } }", "b": hdr("b") + "import a { prefix a; } leaf m { type string; } }"})
	add("import-3-cycle", hdr("a")+"import b { prefix b; } }",
		map[string]string{"a": hdr("a") + "import b { prefix b; } }", "b": hdr("b") + "import c { prefix c; } }", "c": hdr("c") + "import a { prefix a; } }"})
	// the same cycles with every import pinned to a revision (matching, stale, absent)
	for _, pin := range []struct{ id, ab, ba string }{{"stale", "1999-01-01", "1998-01-01"}, {"match", "2024-01-01", "2024-01-01"}, {"half", "1999-01-01", ""}} {
		rd := func(d string) string {
			if d == "" {
				return ""
			}
			return " revision-date " + d + ";"
		}
		add("self-import-revision-"+pin.id, hdr("a")+"import a { prefix x;"+rd(pin.ab)+" } }", map[string]string{"a": hdr("a") + "import a { prefix x;" + rd(pin.ab) + " } }"})
		add("self-import-no-revision-"+pin.id, "module a { namespace \"urn:a\"; prefix a; import a { prefix x;"+rd(pin.ab)+" } }", map[string]string{"a": "module a { namespace \"urn:a\"; prefix a; import a { prefix x;" + rd(pin.ab) + " } }"})
		add("mutual-import-revision-"+pin.id, hdr("a")+"import b { prefix b;"+rd(pin.ab)+" } }", map[string]string{
			"a": hdr("a") + "import b { prefix b;" + rd(pin.ab) + " } }",
			"b": hdr("b") + "import a { prefix a;" + rd(pin.ba) + " } }"})
		add("diamond-revision-"+pin.id, hdr("a")+"import b { prefix b;"+rd(pin.ab)+" } import c { prefix c; } }", map[string]string{
			"b": hdr("b") + "import d { prefix d;" + rd(pin.ab) + " } }",
			"c": hdr("c") + "import d { prefix d;" + rd(pin.ba) + " } }",
			"d": hdr("d") + "typedef t { type string; } }"})
		add("include-revision-"+pin.id, hdr("a")+"include s { revision-date "+pin.ab+"; } }", map[string]string{
			"s": "submodule s { belongs-to a { prefix a; } include s { revision-date " + pin.ab + "; } }"})
	}
	// a resource that holds a module of another name which imports the name it was opened under
	add("wrong-name-imports-back", hdr("a")+"import b { prefix b; } leaf x { type b:t; } }", map[string]string{
		"b": hdr("c") + "import b { prefix b; } typedef t { type string; } }"})
	add("wrong-name-imports-back-by-name", "", map[string]string{
		"a": hdr("a") + "import b { prefix b; } leaf x { type b:t; } }",
		"b": hdr("c") + "import b { prefix b; } typedef t { type string; } }"})
	add("wrong-name-plain", hdr("a")+"import b { prefix b; } leaf x { type b:t; } }", map[string]string{"b": hdr("c") + "typedef t { type string; } }"})
	add("wrong-name-submodule", hdr("a")+"include s; }", map[string]string{"s": "submodule q { belongs-to a { prefix a; } include s; leaf l { type string; } }"})
	// several submodules importing one module: the module itself, a cycle's root, a plain third module
	sub := func(n, imp, pfx, use string) string {
		return "submodule " + n + " { belongs-to a { prefix a; } import " + imp + " { prefix " + pfx + "; } " + use + " }"
	}
	add("self-import-from-two-submodules", hdr("a")+"include s1; include s2; typedef t { type string; } grouping g { leaf gl { type string; } } identity i; }", map[string]string{
		"s1": sub("s1", "a", "p", "leaf x { type p:t; } container c1 { uses p:g; }"),
		"s2": sub("s2", "a", "p", "leaf y { type p:t; } container c2 { uses p:g; } leaf z { type identityref { base p:i; } }")})
	add("mutual-import-from-two-submodules", hdr("a")+"import b { prefix b; } typedef t { type string; } }", map[string]string{
		"a":  hdr("a") + "import b { prefix b; } typedef t { type string; } grouping g { leaf gl { type string; } } }",
		"b":  hdr("b") + "include s1; include s2; }",
		"s1": "submodule s1 { belongs-to b { prefix b; } import a { prefix p; } leaf x { type p:t; } }",
		"s2": "submodule s2 { belongs-to b { prefix b; } import a { prefix p; } leaf y { type p:t; } container c { uses p:g; } }"})
	for _, pfx := range []string{"m", "q"} {
		add("module-and-two-submodules-import-one-"+pfx, hdr("a")+"import m { prefix "+pfx+"; } include s1; include s2; leaf w { type "+pfx+":t; } }", map[string]string{
			"m":  hdr("m") + "typedef t { type string; } grouping g { leaf gl { type string; } } identity i; }",
			"s1": sub("s1", "m", "p", "leaf x { type p:t; }"),
			"s2": sub("s2", "m", "p", "leaf y { type p:t; } container c { uses p:g; } leaf z { type identityref { base p:i; } }")})
		add("three-submodules-import-one-"+pfx, hdr("a")+"include s1; include s2; include s3; }", map[string]string{
			"m":  hdr("m") + "typedef t { type string; } grouping g { leaf gl { type string; } } }",
			"s1": sub("s1", "m", pfx, "leaf x { type "+pfx+":t; }"),
			"s2": sub("s2", "m", "p2", "leaf y { type p2:t; }"),
			"s3": sub("s3", "m", pfx, "container c { uses "+pfx+":g; }")})
	}
	// prefixes that name nothing loadable
	add("stray-belongs-to-prefix-used", hdr("a")+"belongs-to y { prefix p; } leaf x { type p:t; } }", nil)
	add("stray-belongs-to-prefix-used-in-uses", hdr("a")+"belongs-to y { prefix p; } uses p:g; }", nil)
	add("stray-belongs-to-prefix-used-in-base", hdr("a")+"belongs-to y { prefix p; } identity i { base p:j; } leaf l { type identityref { base p:j; } } }", nil)
	add("submodule-prefix-of-missing-parent", "submodule s { belongs-to a { prefix a; } leaf x { type a:t; } uses a:g; }", nil)
	add("import-prefix-of-failed-import", hdr("a")+"import nope { prefix n; } leaf x { type n:t; } }", nil)
	add("self-include", hdr("a")+"include a; }", map[string]string{"a": hdr("a") + "include a; }"})
	add("include-cycle", hdr("a")+"include s1; }", map[string]string{
		"s1": "submodule s1 { belongs-to a { prefix a; } include s2; }",
		"s2": "submodule s2 { belongs-to a { prefix a; } include s1; }"})
	add("grouping-uses-itself", hdr("a")+"grouping g { leaf x { type string; } uses g; } uses g; }", nil)
	add("grouping-uses-itself-in-container", hdr("a")+"grouping g { container c { uses g; } } uses g; }", nil)
	add("groupings-mutual", hdr("a")+"grouping g { uses h; } grouping h { uses g; } uses g; }", nil)
	add("groupings-mutual-in-list", hdr("a")+"grouping g { list l { key k; leaf k { type string; } uses h; } } grouping h { container c { uses g; } } uses g; }", nil)
	add("typedef-self", hdr("a")+"typedef t { type t; } leaf l { type t; } }", nil)
	add("typedef-cycle", hdr("a")+"typedef t { type u; } typedef u { type t; } leaf l { type t; } }", nil)
	add("identity-self", hdr("a")+"identity i { base i; } leaf l { type identityref { base i; } } }", nil)
	add("identity-cycle", hdr("a")+"identity i { base j; } identity j { base i; } leaf l { type identityref { base i; } } }", nil)
	add("leafref-self", hdr("a")+"leaf l { type leafref { path \"../l\"; } } }", nil)
	add("leafref-cycle", hdr("a")+"leaf l { type leafref { path \"../m\"; } } leaf m { type leafref { path \"../l\"; } } }", nil)
	// multi-part ranges and lengths with bounds beyond the signed 64-bit range, out of order, overlapping, repeated
	for i, rg := range []string{"1..10 | 9223372036854775808..18446744073709551615", "9223372036854775807 | 9223372036854775808", "0..1 | 18446744073709551615", "min..10 | 9223372036854775808..max",
		"10..1", "1..5 | 3..8", "5 | 5", "1..2 | 1..2", "-9223372036854775809..0", "1..18446744073709551616", "max..min | 1", "1 | 2 | 3 | 99999999999999999999", "0.5..1.5 | 1.6..9223372036854775808.5"} {
		add(fmt.Sprintf("range-parts-%d", i), hdr("a")+"leaf l { type uint64 { range \""+rg+"\"; } } leaf m { type string { length \""+rg+"\"; } } leaf n { type int64 { range \""+rg+"\"; } } leaf o { type decimal64 { fraction-digits 1; range \""+rg+"\"; } } typedef t { type uint32 { range \""+rg+"\"; } } leaf p { type t { range \"1..2\"; } } }", nil)
	}
	// a module that carries a belongs-to statement and includes submodules that use their belongs-to prefix
	add("module-with-belongs-to-includes", hdr("a")+"belongs-to y { prefix yy; } include s1; typedef t { type string; } grouping g { leaf gl { type string; } } identity i; }", map[string]string{
		"s1": "submodule s1 { belongs-to a { prefix mm; } include s2; leaf x { type mm:t; } container c { uses mm:g; } }",
		"s2": "submodule s2 { belongs-to a { prefix mm; } leaf y { type mm:t; } leaf z { type identityref { base mm:i; } } }"})
	add("submodule-of-submodule-prefix", hdr("a")+"include s1; typedef t { type string; } }", map[string]string{
		"s1": "submodule s1 { belongs-to a { prefix mm; } include s2; leaf x { type mm:t; } }",
		"s2": "submodule s2 { belongs-to s1 { prefix ss; } leaf y { type ss:t; } }"})
	// leafref paths of unusual form
	for i, pth := range []string{"../../item[id=current()/../../which/weight", "../item[", "[", "../x[1]", "../x[id='a']/y", "/a:c/a:l[a:k=current()/../r]/a:v", "../x]", "../x[[", "../x[]", "..", ".", "../", "//", "../ x", "../x/..", "current()", "deref(../x)/../y", " ../x ", "../x | ../y", "../a:x", "../zz:x", "../x/", "../1x", "../x\u00e9"} {
		add(fmt.Sprintf("leafref-path-form-%d", i), hdr("a")+"leaf x { type string; } leaf r { type string; } container c { list l { key k; leaf k { type string; } leaf v { type string; } } } leaf lr { type leafref { path \""+pth+"\"; } } container d { leaf lr2 { type leafref { path \""+pth+"\"; } } } }", nil)
	}
	// must / when / unique / key / default arguments of unusual form
	for i, a := range []string{"", " ", "((", "))", "'", "a'b", "a or", "a[", strings.Repeat("a/", 300) + "b", "\u00e9 = 1", "a = 'x' and (b", "1 2 3"} {
		add(fmt.Sprintf("expr-form-%d", i), hdr("a")+"leaf a { type string; } list q { key \"k\"; unique \""+a+"\"; leaf k { type string; } leaf u { type string; when \""+a+"\"; must \""+a+"\"; } } leaf b { type int32; default \""+a+"\"; } }", nil)
	}
	// a third party pointing into a cycle that is harmless on its own
	add("leafref-into-self", hdr("a")+"leaf l { type leafref { path \"../l\"; } } leaf o { type leafref { path \"../l\"; } } leaf-list p { type leafref { path \"../o\"; } } }", nil)
	add("leafref-into-cycle", hdr("a")+"leaf l { type leafref { path \"../m\"; } } leaf m { type leafref { path \"../l\"; } } leaf o { type leafref { path \"../m\"; } } container c { leaf q { type leafref { path \"../../o\"; } } } }", nil)
	add("leafref-chain-into-cycle-before", hdr("a")+"leaf o { type leafref { path \"../l\"; } } leaf l { type leafref { path \"../m\"; } } leaf m { type leafref { path \"../l\"; } } }", nil)
	add("typedef-into-cycle", hdr("a")+"typedef t { type u; } typedef u { type t; } typedef v { type t; } leaf l { type v; } leaf m { type union { type v; type string; } } }", nil)
	add("identity-into-cycle", hdr("a")+"identity i { base j; } identity j { base i; } identity k { base i; } leaf l { type identityref { base k; } } }", nil)
	add("grouping-into-cycle", hdr("a")+"grouping g { container c { uses h; } } grouping h { container d { uses g; } } grouping k { uses g; } container top { uses k; } }", nil)
	add("feature-into-cycle", hdr("a")+"feature f { if-feature g; } feature g { if-feature f; } feature h { if-feature f; } leaf l { if-feature h; type string; } }", nil)
	add("union-of-self-typedef", hdr("a")+"typedef t { type union { type t; type string; } } leaf l { type t; } }", nil)
	add("augment-self", hdr("a")+"container c { } augment /c { container c { } } augment /c/c { uses g; } grouping g { leaf z { type string; } } }", nil)
	add("augment-missing-target", hdr("a")+"augment /nope { leaf z { type string; } } }", nil)
	add("deviation-missing-target", hdr("a")+"deviation /nope { deviate not-supported; } }", nil)
	add("deviation-on-leaf-add-default", hdr("a")+"leaf l { type string; } deviation /l { deviate add { default x; } } }", nil)
	add("uses-missing", hdr("a")+"uses nope; }", nil)
	add("type-missing", hdr("a")+"leaf l { type nope; } }", nil)
	add("prefix-missing", hdr("a")+"leaf l { type zz:nope; } }", nil)
	add("key-missing-leaf", hdr("a")+"list l { key nope; leaf k { type string; } } }", nil)
	add("choice-default-missing", hdr("a")+"choice c { default nope; case x { leaf l { type string; } } } }", nil)
	add("submodule-as-main", "submodule s { belongs-to a { prefix a; } leaf l { type string; } }", nil)
	add("module-where-submodule", hdr("a")+"include b; }", map[string]string{"b": hdr("b") + "leaf l { type string; } }"})
	add("submodule-where-module", hdr("a")+"import s { prefix s; } }", map[string]string{"s": "submodule s { belongs-to a { prefix a; } }"})
	add("belongs-to-other-module", hdr("a")+"include s; }", map[string]string{"s": "submodule s { belongs-to zz { prefix z; } leaf l { type string; } }"})
	add("uses-grouping-wrong-prefix", hdr("a")+"import b { prefix p1; } uses p2:g; }", map[string]string{"b": hdr("b") + "grouping g { leaf x { type string; } } }"})
	add("augment-target-is-leaf", hdr("a")+"leaf l { type string; } augment /l { leaf z { type string; } } }", nil)
	add("augment-target-is-choice", hdr("a")+"choice c { leaf x { type string; } } augment /c { leaf z { type string; } } }", nil)
	add("augment-target-in-case", hdr("a")+"choice c { case k { leaf x { type string; } } } augment /c/k { leaf z { type string; } } }", nil)
	add("deviation-replace-missing-property", hdr("a")+"leaf l { type string; } deviation /l { deviate replace { units m; default q; } } }", nil)
	add("deviation-delete-missing-property", hdr("a")+"leaf l { type string; } deviation /l { deviate delete { units m; default q; must \"x\"; } } }", nil)
	add("deviation-add-to-container", hdr("a")+"container c { } deviation /c { deviate add { default q; units u; max-elements 3; } } }", nil)
	add("deviation-target-container-type", hdr("a")+"container c { } deviation /c { deviate replace { type string; } } }", nil)
	add("key-leaf-under-choice", hdr("a")+"list l { key k; choice c { leaf k { type string; } } } }", nil)
	add("key-is-container", hdr("a")+"list l { key k; container k { } } }", nil)
	add("leafref-above-root", hdr("a")+"leaf l { type leafref { path \"../../../x\"; } } }", nil)
	add("leafref-to-container", hdr("a")+"container c { } leaf l { type leafref { path \"../c\"; } } }", nil)
	add("leafref-empty-path", hdr("a")+"leaf l { type leafref { path \"\"; } } }", nil)
	add("leafref-absolute-other-module", hdr("a")+"leaf l { type leafref { path \"/zz:x/y\"; } } }", nil)
	add("empty-args", hdr("a")+"leaf l { type string; when \"\"; must \"\"; units \"\"; description \"\"; } list q { key \"\"; unique \"\"; leaf k { type string; } } }", nil)
	add("range-double-dots", hdr("a")+"leaf l { type int32 { range \"1..2..3\"; } } leaf m { type int32 { range \"max..min\"; } } leaf n { type string { length \"|\"; } } }", nil)
	add("range-huge", hdr("a")+"leaf l { type int32 { range \"1..99999999999999999999999\"; } } leaf m { type decimal64 { fraction-digits 99; range \"1.5..x\"; } } }", nil)
	add("feature-self", hdr("a")+"feature f { if-feature f; } leaf l { if-feature f; type string; } }", nil)
	add("feature-cycle", hdr("a")+"feature f { if-feature g; } feature g { if-feature f; } leaf l { if-feature \"f or g\"; type string; } }", nil)
	add("if-feature-unknown", hdr("a")+"leaf l { if-feature nope; type string; } }", nil)
	add("union-empty", hdr("a")+"leaf l { type union { } } }", nil)
	add("union-of-leafref", hdr("a")+"leaf x { type string; } leaf l { type union { type leafref { path \"../x\"; } type int32; } } }", nil)
	add("enum-no-members", hdr("a")+"leaf l { type enumeration; } leaf m { type bits; } leaf n { type identityref; } leaf o { type leafref; } leaf p { type decimal64; } }", nil)
	add("identityref-unknown-base", hdr("a")+"leaf l { type identityref { base nope; } } }", nil)
	add("identityref-base-other-prefix", hdr("a")+"leaf l { type identityref { base zz:i; } } }", nil)
	add("typedef-default-bad", hdr("a")+"typedef t { type int32 { range \"1..5\"; } default 99; } leaf l { type t; } }", nil)
	add("choice-case-name-clash", hdr("a")+"choice c { case x { leaf a { type string; } } case y { leaf a { type string; } } } }", nil)
	add("dup-siblings", hdr("a")+"leaf a { type string; } container a { } }", nil)
	add("dup-typedef", hdr("a")+"typedef t { type string; } typedef t { type int32; } leaf l { type t; } }", nil)
	add("dup-grouping", hdr("a")+"grouping g { leaf x { type string; } } grouping g { leaf y { type string; } } uses g; }", nil)
	add("dup-identity", hdr("a")+"identity i; identity i; }", nil)
	add("rpc-input-twice", hdr("a")+"rpc r { input { leaf a { type string; } } input { leaf b { type string; } } } }", nil)
	add("action-in-rpc", hdr("a")+"rpc r { input { container c { action x; } } } }", nil)
	add("notification-in-grouping-used-twice", hdr("a")+"grouping g { notification n { leaf x { type string; } } action a { input { leaf y { type string; } } } } container c1 { uses g; } container c2 { uses g; } }", nil)
	add("uses-with-refine-and-augment", hdr("a")+"grouping g { container c { leaf x { type string; } } } uses g { refine c/x { default d; } augment c { leaf y { type string; } } } }", nil)
	add("uses-when", hdr("a")+"grouping g { leaf x { type string; } } uses g { when \"../y='1'\"; } leaf y { type string; } }", nil)
	add("import-revision-missing", hdr("a")+"import b { prefix b; revision-date 1999-01-01; } }", map[string]string{"b": hdr("b") + "}"})
	add("import-no-prefix", hdr("a")+"import b; }", map[string]string{"b": hdr("b") + "}"})
	add("import-same-prefix-twice", hdr("a")+"import b { prefix p; } import c { prefix p; } }", map[string]string{"b": hdr("b") + "}", "c": hdr("c") + "}"})
	add("import-own-prefix", hdr("a")+"import b { prefix a; } leaf l { type a:t; } }", map[string]string{"b": hdr("b") + "typedef t { type string; } }"})
	for i, expr := range []string{"f or\n g", "f\n", "\nf", "f\tand\tg", "f\r\nor g", "not\nf", "(f\n or g)", " f ", "f  or   g", "f or (g and not f)", "((f))", "f or", "or f", "()", "f g", "not", "f and and g", "f or or", ")f(", "f\x00g"} {
		add(fmt.Sprintf("if-feature-ws-%d", i), hdr("a")+"feature f; feature g; leaf l { if-feature \""+expr+"\"; type string; } container c { if-feature \""+expr+"\"; } grouping gr { leaf x { type string; } } uses gr { if-feature \""+expr+"\"; refine x { if-feature \""+expr+"\"; default d; } } augment /c { if-feature \""+expr+"\"; leaf y { type string; } } }", nil)
	}
	add("augment-action-onto-leaf", hdr("a")+"leaf l { type string; } augment /l { action x; } }", nil)
	add("augment-notification-onto-leaf", hdr("a")+"leaf l { type string; } augment /l { notification n; } }", nil)
	add("augment-onto-rpc-input", hdr("a")+"rpc r { input { leaf i { type string; } } } augment /r/input { leaf j { type string; } } }", nil)
	add("augment-onto-missing-rpc-output", hdr("a")+"rpc r { } augment /r/output { leaf j { type string; } } }", nil)
	add("augment-onto-notification", hdr("a")+"notification n { leaf i { type string; } } augment /n { leaf j { type string; } } }", nil)
	add("empty", "", nil)
	add("only-comment", "// nothing", nil)
	add("only-block-comment-open", "/* nothing", nil)
	add("comment-at-eof", hdr("a")+"} // c", nil)
	add("unterminated-string", hdr("a")+"description \"abc", nil)
	add("unterminated-squote", hdr("a")+"description 'abc", nil)
	add("concat-dangling", hdr("a")+"description \"a\" + ; }", nil)
	add("two-modules", hdr("a")+"} "+hdr("b")+"}", nil)
	add("revision-bad-date", "module a { namespace \"u\"; prefix a; revision zzzz; }", nil)
	add("bad-range", hdr("a")+"leaf l { type int32 { range \"1..\"; } } }", nil)
	add("bad-range2", hdr("a")+"leaf l { type int32 { range \"..|..\"; } } }", nil)
	add("bad-length", hdr("a")+"leaf l { type string { length \"x..y\"; } } }", nil)
	add("bad-pattern", hdr("a")+"leaf l { type string { pattern \"[\"; } } }", nil)
	add("bad-if-feature", hdr("a")+"feature f; leaf l { if-feature \"f and (\"; type string; } }", nil)
	add("bad-if-feature2", hdr("a")+"feature f; leaf l { if-feature \"and\"; type string; } }", nil)
	add("enum-dup", hdr("a")+"leaf l { type enumeration { enum a; enum a; } } }", nil)
	add("bits-no-pos", hdr("a")+"leaf l { type bits { bit a; bit b { position 0; } } } }", nil)
	add("default-bad-enum", hdr("a")+"leaf l { type enumeration { enum a; } default zz; } }", nil)
	add("default-bad-int", hdr("a")+"leaf l { type int32; default zz; } }", nil)
	add("anydata", hdr("a")+"anydata x; anyxml y; }", nil)
	add("rpc-cycle-grouping", hdr("a")+"grouping g { uses g; } rpc r { input { uses g; } } }", nil)
	add("notification-uses-missing", hdr("a")+"notification n { uses nope; } }", nil)
	add("extension-arg", hdr("a")+"extension e { argument a { yin-element true; } } a:e \"v\"; a:e; leaf l { a:e x { a:e y; } type string; } }", nil)
	add("unknown-prefix-extension", hdr("a")+"zz:e \"v\"; }", nil)
	add("refine-missing", hdr("a")+"grouping g { leaf x { type string; } } uses g { refine nope { default 1; } } }", nil)
	add("refine-bad-kind", hdr("a")+"grouping g { container x { } } uses g { refine x { default 1; mandatory true; min-elements 3; } } }", nil)
	add("uses-augment-missing", hdr("a")+"grouping g { leaf x { type string; } } uses g { augment nope { leaf y { type string; } } } }", nil)
	// deep nesting beyond the 256-entry definition stack
	for _, depth := range []int{100, 255, 256, 257, 300, 600} {
		var b strings.Builder
		b.WriteString(hdr("a"))
		for i := 0; i < depth; i++ {
			fmt.Fprintf(&b, "container c%d { ", i)
		}
		b.WriteString("leaf l { type string; } ")
		b.WriteString(strings.Repeat("} ", depth))
		b.WriteString("}")
		add(fmt.Sprintf("deep-%d", depth), b.String(), nil)
	}
	// long token runs beyond the 64-token ring
	for _, n := range []int{63, 64, 65, 200} {
		add(fmt.Sprintf("concat-%d", n), hdr("a")+"description "+strings.Repeat("\"x\" + ", n)+"\"x\"; }", nil)
		add(fmt.Sprintf("semis-%d", n), hdr("a")+strings.Repeat(";", n)+" }", nil)
		add(fmt.Sprintf("unknown-args-%d", n), hdr("a")+"leaf "+strings.Repeat("x ", n)+"{ type string; } }", nil)
		add(fmt.Sprintf("key-many-%d", n), hdr("a")+"list l { key \""+strings.Repeat("k ", n)+"\"; leaf k { type string; } } }", nil)
		var e strings.Builder
		e.WriteString(hdr("a") + "leaf l { type enumeration { ")
		for i := 0; i < n; i++ {
			fmt.Fprintf(&e, "enum e%d; ", i)
		}
		e.WriteString("} } }")
		add(fmt.Sprintf("enums-%d", n), e.String(), nil)
	}
	return out
}

var featureStmt = regexp.MustCompile(`feature\s+([A-Za-z_][A-Za-z0-9_.-]*)\s*[;{]`)

// featureOptions derives non-default feature configurations from the features a
// text declares: each one off alone, each one on alone, all off.
func featureOptions(text string) []string {
	var names []string
	seen := map[string]bool{}
	for _, m := range featureStmt.FindAllStringSubmatch(text, -1) {
		if !seen[m[1]] && !strings.HasPrefix(m[0], "if-") {
			seen[m[1]] = true
			names = append(names, m[1])
		}
	}
	if len(names) == 0 {
		return nil
	}
	if len(names) > 4 {
		names = names[:4]
	}
	out := []string{"on:"}
	for _, n := range names {
		out = append(out, "off:"+n, "on:"+n)
	}
	return out
}

func c14Cases(r *kit.Rng, tier string) ([]*load.Case, map[string]string) {
	files, byDir := loadCorpus()
	var cases []*load.Case
	origin := map[string]string{}
	add := func(c *load.Case, what string) {
		cases = append(cases, c)
		origin[c.ID] = what
	}
	thorough := tier == "thorough"
	order := func() load.OrderSpec {
		if r.Chance(1, 2) {
			return load.OrderSpec{Mode: "perm", Seed: r.Uint64()}
		}
		return load.OrderSpec{Mode: "sorted"}
	}
	for _, c := range c14Pathological() {
		add(c, "pathological")
		c2 := *c
		c2.ID += "|perm"
		c2.Order = load.OrderSpec{Mode: "perm", Seed: r.Uint64()}
		add(&c2, "pathological")
		// the same text under non-default feature configurations
		for _, fo := range featureOptions(c.Main) {
			c3 := *c
			c3.ID += "|features=" + fo
			c3.Features = fo
			add(&c3, "pathological")
		}
	}
	for _, c := range c14Matrix(thorough) {
		add(c, "statement-placement-matrix")
	}
	for _, c := range c14Targets() {
		add(c, "path-target-matrix")
	}
	// small escape- and comment-rich texts: every prefix and every token edit, in both tiers
	for si, text := range c14Small {
		id := fmt.Sprintf("small%d", si)
		add(&load.Case{ID: id + "|whole", Main: text, Order: load.OrderSpec{Mode: "sorted"}}, "corpus-whole")
		for k := 0; k < len(text); k++ {
			add(&load.Case{ID: fmt.Sprintf("%s|prefix|%d", id, k), Main: text[:k], Order: load.OrderSpec{Mode: "sorted"}}, "prefix")
		}
		toks := yangTokens(text)
		for ti, t := range toks {
			add(&load.Case{ID: fmt.Sprintf("%s|tokdel|%d", id, ti), Main: text[:t[0]] + text[t[1]:], Order: load.OrderSpec{Mode: "sorted"}}, "token-delete")
			add(&load.Case{ID: fmt.Sprintf("%s|tokdup|%d", id, ti), Main: text[:t[1]] + " " + text[t[0]:t[1]] + text[t[1]:], Order: load.OrderSpec{Mode: "sorted"}}, "token-duplicate")
			add(&load.Case{ID: fmt.Sprintf("%s|toksub|%d", id, ti), Main: text[:t[0]] + substPool[(si+ti)%len(substPool)] + text[t[1]:], Order: load.OrderSpec{Mode: "sorted"}}, "token-substitute")
		}
	}
	for _, f := range files {
		id := relID(f.dir) + "/" + f.name
		fs := byDir[f.dir]
		add(&load.Case{ID: id + "|whole", Main: f.text, Files: fs, Order: load.OrderSpec{Mode: "sorted"}}, "corpus-whole")
		add(&load.Case{ID: id + "|whole-by-name", MainName: f.name, Files: fs, Order: order()}, "corpus-whole")
		for _, fo := range featureOptions(f.text) {
			add(&load.Case{ID: id + "|features=" + fo, MainName: f.name, Files: fs, Order: order(), Features: fo}, "corpus-whole")
		}
		// prefixes
		n := len(f.text)
		var ks []int
		if thorough {
			for k := 0; k < n; k++ {
				ks = append(ks, k)
			}
		} else {
			toks := yangTokens(f.text)
			seen := map[int]bool{}
			for i := 0; i < 10 && len(toks) > 0; i++ {
				t := toks[r.Intn(len(toks))]
				for _, k := range []int{t[0], t[0] + 1, t[1] - 1, t[1]} {
					if k >= 0 && k < n && !seen[k] {
						seen[k] = true
						ks = append(ks, k)
					}
				}
			}
			for i := 0; i < 6; i++ {
				k := r.Intn(n + 1)
				if k < n && !seen[k] {
					seen[k] = true
					ks = append(ks, k)
				}
			}
			sort.Ints(ks)
		}
		for _, k := range ks {
			add(&load.Case{ID: fmt.Sprintf("%s|prefix|%d", id, k), Main: f.text[:k], Files: fs, Order: load.OrderSpec{Mode: "sorted"}}, "prefix")
		}
		// token edits
		toks := yangTokens(f.text)
		var tis []int
		if thorough {
			for i := range toks {
				tis = append(tis, i)
			}
		} else {
			for i := 0; i < 8 && len(toks) > 0; i++ {
				tis = append(tis, r.Intn(len(toks)))
			}
		}
		for _, ti := range tis {
			t := toks[ti]
			del := f.text[:t[0]] + f.text[t[1]:]
			dup := f.text[:t[1]] + " " + f.text[t[0]:t[1]] + f.text[t[1]:]
			sub := f.text[:t[0]] + substPool[r.Intn(len(substPool))] + f.text[t[1]:]
			add(&load.Case{ID: fmt.Sprintf("%s|tokdel|%d", id, ti), Main: del, Files: fs, Order: load.OrderSpec{Mode: "sorted"}}, "token-delete")
			add(&load.Case{ID: fmt.Sprintf("%s|tokdup|%d", id, ti), Main: dup, Files: fs, Order: load.OrderSpec{Mode: "sorted"}}, "token-duplicate")
			add(&load.Case{ID: fmt.Sprintf("%s|toksub|%d", id, ti), Main: sub, Files: fs, Order: order()}, "token-substitute")
		}
	}
	return cases, origin
}

// c14OpenerCases derives opener-fault cases from the resources a fault-free
// load of the file opened.
func c14OpenerCases(r *kit.Rng, base *load.Case, opens []string, tier string) []*load.Case {
	var out []*load.Case
	nth := map[string]int{}
	others := []string{}
	for n := range base.Files {
		others = append(others, n)
	}
	sort.Strings(others)
	for _, name := range opens {
		k := nth[name]
		nth[name]++
		text := base.Files[name]
		mk := func(kind string, at int, serve string) {
			c := *base
			c.ID = fmt.Sprintf("%s|open|%s#%d|%s@%d%s", strings.TrimSuffix(base.ID, "|whole-by-name"), name, k, kind, at, serve)
			c.Faults = []load.FsFault{{Name: name, Nth: k, Kind: kind, At: at, Serve: serve}}
			if r.Chance(1, 4) {
				c.Any = true
			}
			out = append(out, &c)
		}
		mk("missing", 0, "")
		mk("open-error", 0, "")
		mk("short-reads", 0, "")
		mk("eof-with-data", 0, "")
		pts := 4
		if tier == "thorough" {
			pts = 40
		}
		for i := 0; i < pts && len(text) > 0; i++ {
			at := r.Intn(len(text))
			mk("read-error", at, "")
			mk("eof", at, "")
			mk("corrupt", at, "")
			mk("dup-chunk", at, "")
		}
		mk("serve", 0, base.MainName) // the importer itself: self import
		// every other resource of the set in place of the one asked for (a module
		// where a submodule is expected, a module of another name, one that itself
		// imports the name being opened)
		for i, o := range others {
			if o != name && (len(others) <= 8 || tier == "thorough" || r.Chance(8, len(others)) || i == 0) {
				mk("serve", 0, o)
			}
		}
	}
	for _, mode := range []string{"ok", "torn", "write-fail", "read-fail"} {
		c := *base
		c.ID = fmt.Sprintf("%s|cache|%s", strings.TrimSuffix(base.ID, "|whole-by-name"), mode)
		c.Cache = mode
		out = append(out, &c)
	}
	return out
}

// c14Key gives the finding identity of a bad outcome.
func c14Key(o *load.Outcome) (string, string) {
	switch o.Kind {
	case "module", "error":
		return "", ""
	case "panic":
		return "panic:" + o.PanicAt + ":" + o.Panic, fmt.Sprintf("loading panicked (%s) at %s [%s]", o.Panic, o.PanicAt, o.Stack)
	case "budget":
		if o.Recursion != "" {
			return "hang:unbounded-recursion:" + o.Recursion, fmt.Sprintf("loading did not finish within the step budget (%d yields) while recursing without bound through %s; innermost frames: %s", o.Steps, o.Recursion, o.Stack)
		}
		if o.LoopFrame != "" {
			return "hang:loop-in:" + o.LoopFrame, fmt.Sprintf("loading did not finish within the step budget (%d yields); two different stopping points share the stack down to %s; innermost frames: %s", o.Steps, o.LoopFrame, o.Stack)
		}
		return "hang:" + hangStage(o.Stack, o.PanicAt), fmt.Sprintf("loading did not finish within the step budget (%d yields); innermost frames: %s", o.Steps, o.Stack)
	case "accessor-panic":
		return "accessor-panic:" + o.PanicAt, fmt.Sprintf("the returned module crashes when walked through its public accessors: %v %s", o.AccPanics, o.Panic)
	case "nil-module":
		return "nil-module-and-nil-error", "the load returned neither a module nor an error"
	case "fatal":
		return "fatal:" + o.Panic + ":" + o.PanicAt, fmt.Sprintf("the worker process died: %s at %s; stderr: %s", o.Panic, o.PanicAt, firstLines(o.Stderr, 6))
	}
	return "", ""
}

func firstLines(s string, n int) string {
	ls := strings.Split(s, "\n")
	if len(ls) > n {
		ls = ls[:n]
	}
	return strings.Join(ls, " | ")
}

// hangStage names the stage of the loader a non-terminating load was in.
func hangStage(stack, at string) string {
	s := stack + " " + at
	switch {
	case strings.Contains(s, "meta.(*compiler)") || strings.Contains(s, "meta.Compile"):
		return "compiler"
	case strings.Contains(s, "meta.(*resolver)"):
		return "resolver"
	case strings.Contains(s, "parser.(*lexer)") || strings.Contains(s, "parser.lex"):
		return "lexer"
	case strings.Contains(s, "parser."):
		return "parser"
	case strings.Contains(s, "accessor-walk"):
		return "accessor-walk"
	}
	return "other"
}

func init() {
	Registry["C14"] = func() *Check {
		return &Check{Property: "C14", Custom: c14Batch, Replay: c14Replay}
	}
	Workers["worker-load"] = load.WorkerMain
}

func c14Batch(c *Check, tier string) int {
	start := time.Now()
	seed := kit.Seed()
	fmt.Printf("check C14 tier=%s VERIF_SEED=%d workers=%d\n", tier, seed, workers())
	findings, err := kit.LoadFindings()
	if err != nil {
		fmt.Fprintln(os.Stderr, "harness:", err)
		return 2
	}
	r := kit.NewRng(kit.Mix(seed, "C14", 0))
	cases, origin := c14Cases(r, tier)
	// generated module sets
	nGen := 40
	if tier == "thorough" {
		nGen = 400
	}
	var wholeByName []*load.Case
	for i := 0; i < nGen; i++ {
		s := schema.GenerateRich(r, "m", r.Range(15, 50), r.Range(1, 4))
		main, mods := s.Modules()
		cs := &load.Case{ID: fmt.Sprintf("gen|%d|whole-by-name", i), MainName: main, Files: mods, Order: load.OrderSpec{Mode: "perm", Seed: r.Uint64()}}
		cases = append(cases, cs)
		origin[cs.ID] = "generated-set"
		wholeByName = append(wholeByName, cs)
	}
	for i := 0; i < nGen; i++ {
		ms := modset.Generate(r, r.Range(30, 90))
		cs := &load.Case{ID: fmt.Sprintf("gen|ms%d|whole-by-name", i), MainName: ms.Main, Files: ms.Files, Order: load.OrderSpec{Mode: "perm", Seed: r.Uint64()}}
		cases = append(cases, cs)
		origin[cs.ID] = "generated-set"
		wholeByName = append(wholeByName, cs)
		if fo := featureOptions(ms.Files[ms.Main]); len(fo) > 0 {
			c2 := *cs
			c2.Features = fo[r.Intn(len(fo))]
			c2.ID = fmt.Sprintf("gen|ms%d|features=%s", i, c2.Features)
			cases = append(cases, &c2)
			origin[c2.ID] = "generated-set"
		}
	}
	for _, cs := range cases {
		if strings.HasSuffix(cs.ID, "|whole-by-name") && !strings.HasPrefix(cs.ID, "gen|") {
			wholeByName = append(wholeByName, cs)
		}
	}
	limit := 4 * time.Minute
	if tier == "thorough" {
		limit = 40 * time.Minute
		if s := kit.EnvInt("VERIF_THOROUGH_SECONDS", 0); s > 0 {
			limit = time.Duration(s) * time.Second
		}
	}
	budget := kit.NewBudget(limit)
	// stage 1: whole files first (their open logs seed the opener-fault cases)
	var first []*load.Case
	var rest []*load.Case
	for _, cs := range cases {
		if strings.HasSuffix(cs.ID, "|whole-by-name") {
			first = append(first, cs)
		} else {
			rest = append(rest, cs)
		}
	}
	outs1, err := load.Supervise(first, workers(), 60*time.Second, budget.Exceeded)
	if err != nil {
		fmt.Fprintln(os.Stderr, "harness:", err)
		return 2
	}
	byID := map[string]*load.Outcome{}
	for i := range outs1 {
		byID[outs1[i].ID] = &outs1[i]
	}
	for _, cs := range first {
		o := byID[cs.ID]
		if o == nil {
			continue
		}
		oc := c14OpenerCases(r, cs, o.Opens, tier)
		for _, x := range oc {
			origin[x.ID] = "opener-fault"
		}
		rest = append(rest, oc...)
	}
	outs2, err := load.Supervise(rest, workers(), 60*time.Second, budget.Exceeded)
	if err != nil {
		fmt.Fprintln(os.Stderr, "harness:", err)
		return 2
	}
	all := append(outs1, outs2...)
	caseByID := map[string]*load.Case{}
	for _, cs := range append(first, rest...) {
		caseByID[cs.ID] = cs
	}
	stats := kit.Counter{}
	prints := map[string]bool{}
	var steps int64
	type hit struct {
		o *load.Outcome
		n int
	}
	viol := map[string]*hit{}
	timeouts := 0
	var samples []interface{}
	for i := range all {
		o := &all[i]
		stats.Inc("outcome:" + o.Kind)
		stats.Inc("case:" + origin[o.ID])
		for _, f := range o.FaultsHit {
			parts := strings.Split(f, ":")
			stats.Inc("fault-fired:" + parts[len(parts)-1])
		}
		steps += o.Steps
		if o.Kind == "timeout" {
			timeouts++
			fmt.Fprintf(os.Stderr, "harness: case %s: %s\n", o.ID, o.Err)
			continue
		}
		nontrivial := origin[o.ID] != "corpus-whole" && origin[o.ID] != "generated-set"
		if nontrivial {
			prints[o.Kind+"|"+o.LogHash+"|"+o.Err+"|"+fmt.Sprint(o.Steps)] = true
		}
		key, _ := c14Key(o)
		if key != "" {
			if h, ok := viol[key]; ok {
				h.n++
				// prefer the shortest reproducer
				if len(caseByID[o.ID].Main)+len(caseByID[o.ID].Faults)*1000 < len(caseByID[h.o.ID].Main)+len(caseByID[h.o.ID].Faults)*1000 {
					h.o = o
				}
			} else {
				viol[key] = &hit{o: o, n: 1}
			}
		}
		if len(samples) < 3 && (origin[o.ID] == "opener-fault" || origin[o.ID] == "prefix") && o.Kind == "error" {
			samples = append(samples, map[string]interface{}{"case": o.ID, "outcome": o.Kind, "error": o.Err, "steps": o.Steps, "faults_fired": o.FaultsHit})
		}
	}
	var keys []string
	for k := range viol {
		keys = append(keys, k)
	}
	sort.Strings(keys)
	exit := 0
	nviol := 0
	var knownSeen []string
	for _, k := range keys {
		h := viol[k]
		_, detail := c14Key(h.o)
		if f := findings.Known("C14", k); f != nil {
			fmt.Printf("KNOWN-FINDING: property=C14 %s [%s] (seen %d times)\n", f.What, k, h.n)
			knownSeen = append(knownSeen, k)
			continue
		}
		nviol++
		cs := caseByID[h.o.ID]
		if mayMinimise() {
			cs = c14MinimiseCase(caseByID[h.o.ID], k)
		}
		v := &kit.Violation{Property: "C14", Oracle: h.o.Kind, Key: k, Detail: detail + " — case " + h.o.ID, Seed: seed,
			LogHash: h.o.LogHash, Scenario: mustJSON(cs), Minimised: cs != caseByID[h.o.ID]}
		path, err := kit.WriteReplay(v)
		if err != nil {
			fmt.Fprintln(os.Stderr, "harness:", err)
			return 2
		}
		fmt.Printf("VIOLATION property=C14 replay=%s\n  key=%s (seen %d times)\n  %s\n", path, k, h.n, v.Detail)
		exit = 1
	}
	var fpLines []string
	for i := range all {
		fpLines = append(fpLines, all[i].ID+"|"+all[i].Kind+"|"+all[i].LogHash+"|"+fmt.Sprint(all[i].Steps)+"|"+all[i].Err)
	}
	sort.Strings(fpLines)
	batch := kit.NewLog(0)
	for _, l := range fpLines {
		batch.Add("%s", l)
	}
	wall := time.Since(start).Seconds()
	findings.PrintUnmet("C14", knownSeen)
	cov := map[string]interface{}{
		"batch_fingerprint":   batch.HashHex(),
		"evaluations":         len(all),
		"distinct_nontrivial": len(prints),
		"rule": "cases: every corpus .yang file of the repository loaded whole (by text and through the opener), prefixes (quick: at and around 10 sampled token boundaries + 6 random offsets per file; thorough: every byte offset), single-token deletions/duplications/substitutions (quick: 8 tokens per file; thorough: every token), opener faults per (resource, n-th open) derived from the fault-free open log (missing, open error, read error/EOF/corrupt byte/duplicated chunk at seeded offsets, short reads, (n,EOF), serving another module incl. the importer itself, torn/failing cache), a statement-placement matrix (every statement kind of the grammar inside every kind of block, 50 x 86; thorough: also each twice), hand-written pathological sets (import/include/grouping/typedef/identity/leafref cycles, nesting beyond the 256-entry stack, token runs beyond the 64-token ring), generated two-module sets; map order permuted per case. " +
			"distinct_nontrivial counts distinct (outcome, seam-log hash, error text, step count) among damaged or faulted cases",
		"samples":             samples,
		"sim_steps":           steps,
		"runs_per_hour":       int(float64(len(all)) / (wall + 1e-9) * 3600),
		"counters":            stats,
		"known_findings_seen": knownSeen,
		"components": map[string]string{
			"lexer, goyacc grammar, meta.Builder, resolver, compiler, source.Any/Cached": "real (instrumented copy: yields + simulator-owned map order)",
			"file system behind the opener, Cacher":                                      "simulated",
			"worker supervisor, step budget":                                             "harness",
		},
		"simulated_time": "no clock: steps are executed yields (one per statement of the instrumented library)",
		"exhaustive":     tier == "thorough" && !budget.Exceeded(),
	}
	ev := &kit.Evidence{PropertyID: "C14", Tier: tier, Seed: int64(seed), Level: "fault_enumeration", Coverage: cov,
		Assumptions: []string{
			"the instrumented copy behaves like /repo (mechanical rewrite; the repository's own suite passes on it under sorted and reversed map order)",
			"a (non-nil module, non-nil error) return counts as an error",
			"goyacc-generated parser.go gets function-entry yields only; a loop confined to it would be caught by the 60 s wall-clock net and reported as harness trouble, not as a violation",
		}, WallS: wall, Violations: nviol}
	if err := ev.Write(); err != nil {
		fmt.Fprintln(os.Stderr, "harness:", err)
		return 2
	}
	fmt.Printf("C14: cases=%d distinct=%d violations=%d known=%d wall=%.1fs\n  counters: %s\n", len(all), len(prints), nviol, len(knownSeen), wall, stats.String())
	if timeouts > 0 {
		fmt.Fprintf(os.Stderr, "harness: %d cases hit the wall-clock safety net\n", timeouts)
		return 2
	}
	if len(prints) < 2 {
		return 2
	}
	return exit
}

func mustJSON(v interface{}) json.RawMessage {
	b, err := json.Marshal(v)
	if err != nil {
		panic(err)
	}
	return b
}

// c14MinimiseCase shrinks the main text (line- then token-wise) while the
// outcome key stays the same. Runs in a supervised worker.
func c14MinimiseCase(cs *load.Case, key string) *load.Case {
	try := func(c *load.Case) bool {
		outs, err := load.Supervise([]*load.Case{c}, 1, 20*time.Second, nil)
		if err != nil || len(outs) != 1 {
			return false
		}
		k, _ := c14Key(&outs[0])
		return k == key
	}
	if cs.Main == "" {
		return cs
	}
	best := *cs
	budget := kit.NewBudget(25 * time.Second)
	// drop faults
	for i := 0; i < len(best.Faults) && !budget.Exceeded(); {
		c := best
		c.Faults = append(append([]load.FsFault(nil), best.Faults[:i]...), best.Faults[i+1:]...)
		if try(&c) {
			best = c
		} else {
			i++
		}
	}
	// drop chunks of the text: halves, then tokens
	for chunk := len(best.Main) / 2; chunk >= 1 && !budget.Exceeded(); chunk /= 2 {
		for off := 0; off+chunk <= len(best.Main) && !budget.Exceeded(); {
			c := best
			c.Main = best.Main[:off] + best.Main[off+chunk:]
			if try(&c) {
				best = c
			} else {
				off += chunk
			}
		}
	}
	best.ID = cs.ID + "|minimised"
	if !try(&best) {
		return cs
	}
	return &best
}

func c14Replay(raw json.RawMessage) ([]*kit.Violation, error) {
	var cs load.Case
	if err := json.Unmarshal(raw, &cs); err != nil {
		return nil, err
	}
	outs, err := load.Supervise([]*load.Case{&cs}, 1, 60*time.Second, nil)
	if err != nil {
		return nil, err
	}
	var vs []*kit.Violation
	for i := range outs {
		k, d := c14Key(&outs[i])
		if k != "" {
			vs = append(vs, &kit.Violation{Property: "C14", Key: k, Detail: d, LogHash: outs[i].LogHash, Scenario: raw})
		}
	}
	return vs, nil
}
