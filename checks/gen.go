package checks

import (
	"strings"
	"verif/sim/kit"
	"verif/sim/model"
	"verif/sim/schema"
	"verif/sim/sess"
)

// mutate derives from an existing subtree a payload that addresses (mostly)
// things that exist: some leaves changed, some dropped, some branches dropped.
func mutate(r *kit.Rng, t *model.Tree, o model.GenOpts, addNew bool) *model.Tree {
	out := model.New(t.S)
	for _, c := range t.S.DataChildren() {
		switch c.Kind {
		case schema.Leaf:
			v, ok := t.Leaf[c.Name]
			if !ok {
				continue
			}
			if c.IsKey() {
				out.Leaf[c.Name] = v
				continue
			}
			switch r.Intn(10) {
			case 0, 1, 2, 3:
				out.Leaf[c.Name] = model.Value(r, c, o)
			case 4, 5, 6:
				// drop
			default:
				out.Leaf[c.Name] = v
			}
		case schema.LeafList:
			if v, ok := t.LL[c.Name]; ok && r.Chance(1, 2) {
				if r.Chance(1, 2) && len(v) > 1 {
					out.LL[c.Name] = append([]string(nil), v[:len(v)-1]...)
				} else {
					out.LL[c.Name] = append(append([]string(nil), v...), model.Value(r, c, model.GenOpts{NoZero: true}))
				}
			}
		case schema.Container:
			if v, ok := t.Cont[c.Name]; ok && r.Chance(7, 10) {
				out.Cont[c.Name] = mutate(r, v, o, addNew)
			}
		case schema.List:
			if v, ok := t.List[c.Name]; ok && r.Chance(7, 10) {
				l := &model.ListT{S: c}
				for _, e := range v.Entries {
					if r.Chance(6, 10) {
						l.Entries = append(l.Entries, mutate(r, e, o, addNew))
					}
				}
				if addNew && r.Chance(1, 3) {
					e := model.Random(r, c, o, 1)
					if _, dup := l.Find(e.Key()); dup == nil {
						l.Entries = append(l.Entries, e)
					}
				}
				if len(l.Entries) > 0 || !o.NoZero {
					out.List[c.Name] = l
				}
			}
		}
	}
	return out
}

// pruneExisting removes from payload the containers and lists that already
// exist at the entry level of cur (so that an insert can succeed).
func pruneExisting(p, cur *model.Tree) {
	for n := range p.Cont {
		if _, ok := cur.Cont[n]; ok {
			delete(p.Cont, n)
		}
	}
	for n := range p.List {
		if _, ok := cur.List[n]; ok {
			delete(p.List, n)
		}
	}
}

type opGen struct {
	r     *kit.Rng
	o     model.GenOpts
	kinds []string // weighted by repetition
	srcs  []string
}

// next draws an operation against the current model state.
func (g *opGen) next(cur *model.Tree) sess.Op {
	r := g.r
	kind := g.kinds[r.Intn(len(g.kinds))]
	paths := cur.AllPaths()
	var at model.Path
	switch kind {
	case "delete", "replace", "sweep", "batch-delete", "list-session":
		if len(paths) == 0 {
			kind = "upsert"
		} else {
			at = paths[r.Intn(len(paths))]
		}
	default:
		if len(paths) > 0 && r.Chance(2, 3) {
			at = paths[r.Intn(len(paths))]
		}
	}
	if kind == "batch-delete" {
		// two to four containers, none inside another and none inside a list entry that
		// another of them lies in... simply: pairwise not prefixes of one another
		var conts []model.Path
		for _, p := range paths {
			if p[len(p)-1].Key == nil {
				if loc, ok := cur.Resolve(p); ok && loc.Tree != nil {
					conts = append(conts, p)
				}
			}
		}
		for i := len(conts) - 1; i > 0; i-- {
			j := r.Intn(i + 1)
			conts[i], conts[j] = conts[j], conts[i]
		}
		var pick []model.Path
		for _, p := range conts {
			ok := true
			for _, q := range pick {
				if isPrefix(p, q) || isPrefix(q, p) {
					ok = false
				}
			}
			if ok {
				pick = append(pick, p)
			}
			if len(pick) == 4 {
				break
			}
		}
		if len(pick) >= 2 {
			return sess.Op{Kind: "batch-delete", Paths: pick}
		}
		kind = "delete"
	}
	if kind == "list-session" {
		var lists []model.Path
		for _, p := range paths {
			if p[len(p)-1].Key == nil {
				if loc, ok := cur.Resolve(p); ok && loc.Tree == nil && loc.List != nil && len(loc.List.Entries) >= 2 {
					lists = append(lists, p)
				}
			}
		}
		if len(lists) == 0 {
			kind = "delete"
		} else {
			at = lists[r.Intn(len(lists))]
			loc, _ := cur.Resolve(at)
			es := loc.List.Entries
			n := r.Range(1, len(es)-1)
			first := r.Intn(len(es))
			op := sess.Op{Kind: "list-session", At: at, SrcKind: g.srcs[r.Intn(len(g.srcs))]}
			back := &model.ListT{S: loc.S}
			for i := 0; i < n; i++ {
				e := es[(first+i)%len(es)]
				op.Keys = append(op.Keys, e.Key())
				// the same key comes back, with fresh content
				ne := model.Random(r, loc.S, g.o, 1)
				for ki, k := range loc.S.Keys {
					ne.Leaf[k] = e.Key()[ki]
				}
				back.Entries = append(back.Entries, ne.DropEmptyLists())
			}
			op.List = back
			return op
		}
	}
	if kind == "sweep" {
		// a list with at least two entries; fall back to a plain delete
		var lists []model.Path
		for _, p := range paths {
			if p[len(p)-1].Key == nil {
				if loc, ok := cur.Resolve(p); ok && loc.Tree == nil && loc.List != nil && len(loc.List.Entries) >= 2 {
					lists = append(lists, p)
				}
			}
		}
		if len(lists) == 0 {
			kind = "delete"
		} else {
			at = lists[r.Intn(len(lists))]
			loc, _ := cur.Resolve(at)
			es := loc.List.Entries
			idx := make([]int, len(es))
			for i := range idx {
				idx[i] = i
			}
			for i := len(idx) - 1; i > 0; i-- {
				j := r.Intn(i + 1)
				idx[i], idx[j] = idx[j], idx[i]
			}
			n := r.Range(2, len(es))
			op := sess.Op{Kind: "sweep", At: at}
			for _, i := range idx[:n] {
				op.Keys = append(op.Keys, es[i].Key())
			}
			return op
		}
	}
	op := sess.Op{Kind: kind, At: at}
	if kind == "delete" {
		return op
	}
	op.SrcKind = g.srcs[r.Intn(len(g.srcs))]
	if op.SrcKind == "xml" {
		op.Interleave = r.Chance(1, 2)
	}
	loc, _ := cur.Resolve(at)
	if loc.Tree == nil && loc.List != nil {
		// entry point is the list itself
		var l *model.ListT
		switch r.Intn(4) {
		case 0:
			l = model.RandomList(r, loc.S, g.o, 1)
		case 1, 2:
			holder := model.New(loc.S.DataParent())
			holder.List[loc.S.Name] = loc.List
			m := mutate(r, holder, g.o, kind != "update")
			l = m.List[loc.S.Name]
			if l == nil {
				l = &model.ListT{S: loc.S}
			}
		default:
			l = model.RandomList(r, loc.S, g.o, 1)
			if kind == "insert" {
				var keep []*model.Tree
				for _, e := range l.Entries {
					if _, dup := loc.List.Find(e.Key()); dup == nil {
						keep = append(keep, e)
					}
				}
				l.Entries = keep
			}
		}
		if len(l.Entries) == 0 {
			e := model.Random(r, loc.S, g.o, 1)
			l.Entries = append(l.Entries, e)
		}
		for _, e := range l.Entries {
			e.DropEmptyLists()
		}
		op.List = l
		return op
	}
	cs := loc.Tree
	var p *model.Tree
	switch r.Intn(5) {
	case 0:
		p = model.Random(r, loc.S, g.o, 1)
	case 1, 2:
		p = mutate(r, cs, g.o, kind != "update")
	case 3:
		p = mutate(r, cs, g.o, kind != "update")
		var out model.Outcome
		model.MergeTree(p, model.Random(r, loc.S, g.o, 1), model.Upsert, false, &out)
	default:
		p = model.Random(r, loc.S, g.o, 1)
		if kind == "insert" {
			pruneExisting(p, cs)
		}
	}
	// a payload aimed at a list entry keeps that entry's key
	if len(at) > 0 && at[len(at)-1].Key != nil {
		for i, k := range loc.S.Keys {
			p.Leaf[k] = at[len(at)-1].Key[i]
		}
	}
	if kind == "replace" && r.Chance(1, 2) {
		// replace by something with fewer leaves
		for _, c := range loc.S.DataChildren() { // schema order: draws must not depend on map order
			if _, ok := p.Leaf[c.Name]; ok && !c.IsKey() && r.Chance(1, 2) {
				delete(p.Leaf, c.Name)
			}
		}
	}
	// an XML document cannot mention a list without entries; keep payloads unambiguous
	op.Tree = p.DropEmptyLists()
	return op
}

func isPrefix(a, b model.Path) bool {
	if len(a) > len(b) {
		return false
	}
	for i := range a {
		if a[i].Name != b[i].Name || strings.Join(a[i].Key, "\x00") != strings.Join(b[i].Key, "\x00") || (a[i].Key == nil) != (b[i].Key == nil) {
			return false
		}
	}
	return true
}
