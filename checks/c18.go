package checks

import (
	"verif/sim/kit"
	"verif/sim/model"
	"verif/sim/schema"
	"verif/sim/sess"
	"verif/sim/store"
)

// C18 — delete and replace remove exactly the addressed subtree; list keys
// stay unique. Quantified over histories; slice-backed deletion re-slices a
// shared backing array, which only misbehaves for particular positions and
// sequences, and ReplaceFrom is delete-then-insert whose intermediate state
// shows when the second step fails.

var c18Stores = []string{"nstruct0", "nacc", "nstruct", "rstruct", "nstruct", "rstruct", "rmap", "nmap", "ctl"}

func c18Gen(r *kit.Rng) *histScenario {
	sk := store.Variant(r, c18Stores[r.Intn(len(c18Stores))])
	st, _ := store.New(sk)
	caps := st.Caps()
	if !r.Chance(1, 3) {
		caps.Choices = false // a third of the schemas have choices (in lists too): replace must not let a case of the old content survive
	}
	caps.MaxNodes = r.Range(8, 22)
	if r.Chance(1, 2) {
		caps.MapLists = false // emphasis on slice-backed lists
	}
	s := schema.Generate(r, caps, "m", caps.Choices && r.Chance(1, 2), true)
	o := st.GenOpts()
	o.Density = r.Pick3(50, 70, 90)
	o.MaxEntries = r.Pick3(3, 5, 8)
	o.KeyPool = o.MaxEntries + 2
	init := model.Random(r, s, o.WithBudget(60), 0)
	g := &opGen{r: r, o: o, srcs: []string{"json", "xml", "mnode"},
		kinds: []string{"delete", "delete", "delete", "sweep", "batch-delete", "list-session", "replace", "replace", "upsert", "insert", "upsert"}}
	if caps.Choices {
		// an insert of a node of another case is not what this property (or the
		// one-case property, which speaks of upserts) defines: upserts instead
		for i, k := range g.kinds {
			if k == "insert" {
				g.kinds[i] = "upsert"
			}
		}
	}
	sc := &histScenario{Schema: s, Store: sk, Init: init}
	cur := init.Clone()
	n := r.Range(3, 25)
	for i := 0; i < n; i++ {
		op := g.next(cur)
		sc.Ops = append(sc.Ops, op)
		sc.Into = append(sc.Into, false)
		next := cur.Clone()
		if out, ok := sess.ApplyModel(next, op); ok && out.Err == model.OK {
			cur = next
		}
	}
	return sc
}

func init() {
	cfg := histCfg{prop: "C18", checkKeys: true}
	Registry["C18"] = func() *Check {
		return histCheck("C18", cfg, c18Gen, 3,
			"one run = one seeded history of 3-25 operations from {delete, replace, upsert, insert, sweep, batch-delete, list-session}; the first four are addressed through a selection freshly obtained by Find from the root (containers, whole lists, list entries by key incl. first/last/only entry, nested lists, delete-then-reinsert of a key, replace by an entry with fewer leaves); sweep walks a list once and deletes several entries through the walk's selections; batch-delete selects several containers (none inside another) first and deletes them in turn; list-session keeps one list selection across a walk, deletes through the walk's selections, an upsert of the same keys through the list selection and a second walk, which must meet exactly the entries the list holds. Slice-backed (nodeutil.Node sliceAsList, Reflect.listSlice) and map-backed lists of every store kind (incl. hand-written types with accessor methods, nodeutil.Node with default options, pass-through hook variants); a third of the schemas have choices (also in lists), a third of the lists are ordered-by user; parts of compound keys run into one another when glued together. Fault-free: after every operation the store's Go value walked directly equals the model (addressed subtree gone, siblings/other entries/ancestors untouched, replace leaves exactly the supplied content), no list holds two entries with equal keys, every entry is returned by Find under the key its key leaves hold and every removed key and removed container Finds to nil (every present container is found), and the library export equals the store. Fault-injecting: one error/refuse/error-after-effect at a seeded callback inside one operation; nothing outside the footprint changes, every leaf inside is old or new, keys stay unique among completely created entries. distinct_nontrivial as for C09",
			[]string{
				"selections obtained before a structural change made through another selection are not part of any oracle (the library nowhere promises they survive)",
				"an entry whose key leaf was never written because the node refused the write is the node's failure, not a duplicate key",
			}, 2500)
	}
}
