//go:build verif

package checks

import (
	"encoding/json"
	"fmt"
	"os"
	"sort"
	"strings"
	"sync"
	"time"

	"verif/sim/kit"
	"verif/sim/model"
	"verif/sim/modset"
	"verif/sim/sched"
	"verif/sim/schema"
	"verif/sim/sess"
	"verif/sim/store"
)

// C20 — a compiled schema is immutable shared state; concurrent use is
// race-free and each client obtains the result it obtains alone.

var c20Stores = []string{"rmap", "nmap", "nstruct", "ctl", "rstruct"}

func c20Gen(r *kit.Rng) *sched.Scenario {
	caps := schema.FullCaps()
	caps.CompoundKeys = false
	caps.IntKeys = false
	caps.Choices = true
	caps.MaxNodes = r.Range(10, 25)
	var s *schema.Node
	rich := r.Chance(1, 3) // two-module schema with every leaf type (identityref, bits, union, ...)
	acc := !rich && r.Chance(1, 5)
	if acc {
		// the accessor-fixture schema: its rpcs are served by Go methods of every client's own store object
		st0, _ := store.New("nacc")
		s = schema.Generate(r, st0.Caps(), "m", true, true)
	} else if rich {
		s = schema.GenerateRich(r, "m", r.Range(25, 45), r.Range(2, 3))
	} else {
		s = schema.Generate(r, caps, "m", r.Chance(1, 2), true)
		schema.AddWhens(r, s)
	}
	sc := &sched.Scenario{Schema: s, Procs: kit.EnvInt("VERIF_C20_PROCS", 1)}
	k := r.Range(2, 6)
	loads := r.Chance(1, 2) // swarm: half of the scenarios contain no load at all (pure use of the shared module)
	_, mods := s.Modules()
	for c := 0; c < k; c++ {
		sk := c20Stores[r.Intn(len(c20Stores))]
		st, _ := store.New(sk)
		if !st.Caps().Choices {
			sk = "rmap"
			st, _ = store.New(sk)
		}
		if rich {
			sk = "ctl" // the real stores do not hold every leaf type
			st, _ = store.New(sk)
		}
		if acc {
			sk = "nacc"
			st, _ = store.New(sk)
		}
		o := st.GenOpts()
		o.Density = 70
		if rich {
			o.Nasty = true
			o.KeyPool = 6
		}
		init := model.Random(r, s, o.WithBudget(40), 0)
		cl := sched.Client{Store: sk, Init: init}
		g := &opGen{r: r, o: o, srcs: []string{"json", "xml", "mnode"}, kinds: []string{"upsert", "upsert", "delete"}}
		cur := init.Clone()
		n := r.Range(3, 8)
		for i := 0; i < n; i++ {
			x := r.Intn(10)
			switch {
			case loads && x < 3:
				ms := modset.Generate(r, r.Range(20, 50))
				cl.Ops = append(cl.Ops, sched.Op{Kind: "load-set", Files: ms.Files, Main: ms.Main, Cfg: r.Intn(2)})
			case loads && x < 4:
				cl.Ops = append(cl.Ops, sched.Op{Kind: "load-m", Files: mods, Main: "m", Cfg: r.Intn(2)})
			case x < 6:
				op := g.next(cur)
				next := cur.Clone()
				if out, ok := sess.ApplyModel(next, op); ok && out.Err == model.OK {
					cur = next
				}
				kind := "upsert"
				if op.Kind == "delete" {
					kind = "delete"
				}
				cl.Ops = append(cl.Ops, sched.Op{Kind: kind, Sess: &op})
			case acc && x < 8:
				body := fmt.Sprintf(`{"aa":"client%d-%d","ab":%d}`, c, i, r.Range(1, 99))
				path := "zzact"
				if r.Chance(1, 4) {
					path, body = "zznoin", ""
				}
				cl.Ops = append(cl.Ops, sched.Op{Kind: "action", Path: path, Query: body})
			case x < 7:
				cl.Ops = append(cl.Ops, sched.Op{Kind: "export"})
			default:
				paths := cur.AllPaths()
				p := ""
				if len(paths) > 0 && r.Chance(2, 3) {
					p = paths[r.Intn(len(paths))].String()
				}
				var names []string
				s.Walk(func(x *schema.Node) {
					if x.IsData() {
						names = append(names, x.Name)
					}
				})
				nm := func() string { return names[r.Intn(len(names))] }
				q := ""
				switch r.Intn(14) {
				case 11:
					// a rejected multi-step expression (an error is a result too): whatever
					// parser state it leaves behind must not reach the next request
					q = "where=" + r.Pick([]string{nm() + "/" + nm() + "%3D%3D'x'", nm() + "/" + nm() + "%3D'unterminated", nm() + "/zz:" + nm() + "%3D1", nm() + "/" + nm() + "/"})
				case 12:
					q = "where=" + nm() + "/" + nm() + "%3D'x'"
				case 13:
					q = "filter=" + nm() + "%3D'x'&fields=" + nm()
				case 6:
					q = "fields=" + nm() + ";" + nm()
				case 7:
					q = "fc.xfields=" + nm()
				case 8:
					q = "fc.range=" + nm() + "!1-2"
				case 9:
					q = "where=" + nm() + "%3D1"
				case 10:
					q = "fc.max-node-count=50&with-defaults=trim"
				case 0:
					q = fmt.Sprintf("depth=%d", r.Range(1, 4))
				case 1:
					q = "content=" + r.Pick([]string{"config", "nonconfig", "all"})
				case 2:
					q = "with-defaults=trim"
				case 3:
					q = fmt.Sprintf("depth=%d&content=config", r.Range(1, 3))
				}
				kind := r.Pick([]string{"json", "json", "xml", "find-write"})
				cl.Ops = append(cl.Ops, sched.Op{Kind: kind, Path: p, Query: q, Cfg: r.Intn(8)})
			}
		}
		sc.Clients = append(sc.Clients, cl)
	}
	if r.Chance(1, 3) {
		sc.Schedule = sched.Schedule{Mode: "pct", Seed: r.Uint64(), Changes: r.Range(1, 3), Horizon: 3000}
	} else {
		sc.Schedule = sched.Schedule{Mode: "uniform", Seed: r.Uint64(), Quantum: []int{5, 50, 500, 5000}[r.Intn(4)]}
	}
	return sc
}

type c20Finding struct {
	key, detail string
}

func c20Oracle(sc *sched.Scenario, res *sched.Result) []c20Finding {
	var out []c20Finding
	if res.Err != "" {
		return []c20Finding{{"harness", res.Err + " " + res.Stderr}}
	}
	if res.Fatal != "" {
		out = append(out, c20Finding{"fatal:" + res.Fatal, "the worker died with a runtime fatal error: " + res.Fatal + " — " + firstLines(res.Stderr, 8)})
		return out
	}
	seen := map[string]bool{}
	for _, rc := range res.Races {
		k := "race:" + rc.Key()
		if !seen[k] {
			seen[k] = true
			out = append(out, c20Finding{k, "data race reported by the race detector between " + rc.A + " and " + rc.B + ":\n" + rc.Text})
		}
	}
	for i := range res.Together {
		for j := range res.Together[i] {
			if j < len(res.Alone[i]) && res.Together[i][j] != res.Alone[i][j] {
				kind := sc.Clients[i].Ops[j].Kind
				out = append(out, c20Finding{"alone-vs-together:" + kind, fmt.Sprintf("client %d op %d (%s) obtained a different result when run concurrently:\n   together: %s\n   alone:    %s", i, j, kind, trunc(res.Together[i][j], 300), trunc(res.Alone[i][j], 300))})
				break
			}
		}
	}
	for i := range res.Together {
		if i >= len(res.AloneFresh) {
			break
		}
		for j := range res.Together[i] {
			if j < len(res.AloneFresh[i]) && res.Together[i][j] != res.AloneFresh[i][j] {
				kind := sc.Clients[i].Ops[j].Kind
				out = append(out, c20Finding{"alone-fresh-process-vs-together:" + kind, fmt.Sprintf("client %d op %d (%s) obtained a different result in the concurrent run than when its program runs by itself in a fresh process:\n   together: %s\n   alone:    %s", i, j, kind, trunc(res.Together[i][j], 300), trunc(res.AloneFresh[i][j], 300))})
				break
			}
		}
	}
	if res.MHashBefore != res.MHashAfter {
		out = append(out, c20Finding{"shared-module-mutated", fmt.Sprintf("the deep structural hash of the shared compiled module changed while clients used it (%x -> %x)", res.MHashBefore, res.MHashAfter)})
	}
	for _, g := range res.GlobalsDiffUse {
		out = append(out, c20Finding{"global-changed-by-use:" + g, "using a compiled module (no load in this scenario) changed the package-level variable " + g})
	}
	if len(res.GlobalsDiffUse) == 0 {
		for _, g := range res.GlobalsDiff {
			out = append(out, c20Finding{"global-changed-by-load:" + g, "loading modules changed the package-level variable " + g + " (loading must not depend on or modify process-wide state)"})
		}
	}
	return out
}

func init() {
	Registry["C20"] = func() *Check {
		return &Check{Property: "C20", Custom: c20Batch, Replay: c20Replay}
	}
	Workers["worker-sched"] = sched.WorkerMain
}

func c20Batch(c *Check, tier string) int {
	start := time.Now()
	seed := kit.Seed()
	fmt.Printf("check C20 tier=%s VERIF_SEED=%d workers=%d\n", tier, seed, workers())
	findings, err := kit.LoadFindings()
	if err != nil {
		fmt.Fprintln(os.Stderr, "harness:", err)
		return 2
	}
	n := kit.EnvInt("VERIF_QUICK_RUNS", 300)
	limit := 3 * time.Minute
	if tier == "thorough" {
		n = 1 << 30
		limit = 20 * time.Minute
		if s := kit.EnvInt("VERIF_THOROUGH_SECONDS", 0); s > 0 {
			limit = time.Duration(s) * time.Second
		}
	}
	budget := kit.NewBudget(limit)
	type item struct {
		i     int
		sc    *sched.Scenario
		res   sched.Result
		again *sched.Result
		free  *sched.Result
	}
	var mu sync.Mutex
	var items []*item
	next := 0
	var wg sync.WaitGroup
	for w := 0; w < workers(); w++ {
		wg.Add(1)
		go func() {
			defer wg.Done()
			for {
				mu.Lock()
				if next >= n || budget.Exceeded() {
					mu.Unlock()
					return
				}
				i := next
				next++
				mu.Unlock()
				r := kit.NewRng(kit.Mix(seed, "C20", i))
				sc := c20Gen(r)
				it := &item{i: i, sc: sc}
				it.res = sched.Exec(sc, 120*time.Second)
				// the same programs alone, in a fresh process, clients in reverse order
				hasLoad := false
				for _, cl := range sc.Clients {
					for _, o := range cl.Ops {
						if strings.HasPrefix(o.Kind, "load") {
							hasLoad = true
						}
					}
				}
				if hasLoad || i%4 == 0 || tier == "thorough" {
					scA := *sc
					scA.AloneOnly = true
					ra := sched.Exec(&scA, 120*time.Second)
					if ra.Err == "" && ra.Fatal == "" {
						it.res.AloneFresh = ra.Alone
					}
				}
				// determinism sample: 1 in 20 scenarios is executed again at another GOMAXPROCS
				if i%20 == 0 {
					sc2 := *sc
					sc2.Procs = []int{1, 4, 16}[(i/20)%3]
					r2 := sched.Exec(&sc2, 120*time.Second)
					it.again = &r2
				}
				// uncontrolled cross-check (thorough): the same scenario free-running
				// at GOMAXPROCS 16; its verdict rests on happens-before analysis too
				if tier == "thorough" && i%5 == 1 {
					sc3 := *sc
					sc3.Procs = 16
					sc3.Schedule.Mode = "free"
					r3 := sched.Exec(&sc3, 120*time.Second)
					it.free = &r3
				}
				mu.Lock()
				items = append(items, it)
				mu.Unlock()
			}
		}()
	}
	wg.Wait()
	sort.Slice(items, func(a, b int) bool { return items[a].i < items[b].i })
	stats := kit.Counter{}
	prints := map[string]bool{}
	var steps int64
	type hit struct {
		f  c20Finding
		sc *sched.Scenario
		n  int
		fp string
	}
	viol := map[string]*hit{}
	harness := 0
	var samples []interface{}
	switchSites := map[string]bool{}
	for _, it := range items {
		if it.again != nil {
			it.res.Races = append(it.res.Races, it.again.Races...)
		}
		fs := c20Oracle(it.sc, &it.res)
		steps += it.res.Steps
		stats.Inc("schedule:" + it.sc.Schedule.Mode)
		stats.Add("clients", len(it.sc.Clients))
		stats.Add("switches", it.res.Switches)
		for _, s := range it.res.SwitchSites {
			switchSites[s[strings.Index(s, "@"):]] = true
		}
		for _, cl := range it.sc.Clients {
			for _, o := range cl.Ops {
				stats.Inc("op:" + o.Kind)
			}
		}
		if it.res.Switches > len(it.sc.Clients) {
			prints[it.res.Fingerprint] = true
		}
		if it.again != nil {
			stats.Inc("determinism-recheck")
			// the detector's own bookkeeping (bounded shadow history) makes the NUMBER of
			// reports vary once there are races; the interleaving, every result and
			// whether anything was reported must not
			// (whether the detector still holds the earlier access of a heap object also
			// depends on when the garbage collector recycled it, so reports are compared
			// by union, not required to be equal)
			if it.again.Fingerprint != it.res.Fingerprint || fmt.Sprint(it.again.Together) != fmt.Sprint(it.res.Together) {
				fmt.Fprintf(os.Stderr, "harness: scenario %d is not deterministic across GOMAXPROCS (fingerprint %s vs %s, races %d vs %d)\n", it.i, it.res.Fingerprint, it.again.Fingerprint, len(it.res.Races), len(it.again.Races))
				harness++
			}
		}
		if it.free != nil {
			stats.Inc("uncontrolled-cross-check")
			det := map[string]bool{}
			for _, rc := range it.res.Races {
				det[rc.Key()] = true
			}
			for _, rc := range it.free.Races {
				if !det[rc.Key()] {
					fmt.Fprintf(os.Stderr, "harness: the free-running pass of scenario %d reported a race the serialised pass did not: %s\n%s\n", it.i, rc.Key(), rc.Text)
					harness++
				}
			}
		}
		for _, f := range fs {
			if f.key == "harness" {
				harness++
				fmt.Fprintln(os.Stderr, "harness:", f.detail)
				continue
			}
			if h, ok := viol[f.key]; ok {
				h.n++
				if len(mustJSON(it.sc)) < len(mustJSON(h.sc)) {
					h.f, h.sc, h.fp = f, it.sc, it.res.Fingerprint
				}
			} else {
				viol[f.key] = &hit{f: f, sc: it.sc, n: 1, fp: it.res.Fingerprint}
			}
		}
		if len(samples) < 2 {
			var progs []string
			for ci, cl := range it.sc.Clients {
				var ks []string
				for _, o := range cl.Ops {
					ks = append(ks, o.Kind)
				}
				progs = append(progs, fmt.Sprintf("client %d (%s): %s", ci, cl.Store, strings.Join(ks, ", ")))
			}
			samples = append(samples, map[string]interface{}{"schedule": it.sc.Schedule, "programs": progs, "switches": it.res.Switches, "yields": it.res.Steps, "first_switch_points": it.res.SwitchSites})
		}
	}
	var keys []string
	for k := range viol {
		keys = append(keys, k)
	}
	sort.Strings(keys)
	exit, nviol := 0, 0
	var knownSeen []string
	for _, k := range keys {
		h := viol[k]
		if f := findings.Known("C20", k); f != nil {
			fmt.Printf("KNOWN-FINDING: property=C20 %s [%s] (seen %d times)\n", f.What, k, h.n)
			knownSeen = append(knownSeen, k)
			continue
		}
		nviol++
		sc := h.sc
		if mayMinimise() {
			sc = c20Minimise(h.sc, k)
		}
		v := &kit.Violation{Property: "C20", Oracle: strings.SplitN(k, ":", 2)[0], Key: k, Detail: h.f.detail, Seed: seed, LogHash: h.fp, Scenario: mustJSON(sc), Minimised: sc != h.sc}
		path, err := kit.WriteReplay(v)
		if err != nil {
			fmt.Fprintln(os.Stderr, "harness:", err)
			return 2
		}
		fmt.Printf("VIOLATION property=C20 replay=%s\n  key=%s (seen %d times)\n  %s\n", path, k, h.n, trunc(h.f.detail, 1500))
		exit = 1
	}
	batch := kit.NewLog(0)
	for _, it := range items {
		batch.Add("%d|%s|%v", it.i, it.res.Fingerprint, it.res.Together)
	}
	wall := time.Since(start).Seconds()
	findings.PrintUnmet("C20", knownSeen)
	cov := map[string]interface{}{
		"batch_fingerprint":     batch.HashHex(),
		"evaluations":           len(items),
		"distinct_nontrivial":   len(prints),
		"rule":                  "one evaluation = one schedule executed in a fresh worker process (-race build of the instrumented library): 2-6 client goroutines with their own store and a program of 3-8 operations (load a generated module set with uses/anydata/identities, load the shared module's text again, upsert from JSON/XML/model source, delete, export, Find with depth/content/with-defaults then JSON write in all 8 configurations, XML write) over ONE shared compiled module; exactly one client runs at a time, switched at statement granularity by a seeded scheduler (uniform quanta with mean 5/50/500/5000 statements, or PCT with 1-3 priority change points). Oracles: zero race-detector reports; every operation's result byte-equal to the same program run alone afterwards; deep structural hash (unexported fields included) of the shared module unchanged; deep hash of every package-level variable of the library unchanged by use and by load. distinct_nontrivial counts distinct schedule fingerprints (hash of the (client, yield site) sequence at switch points) among schedules with more switches than clients",
		"samples":               samples,
		"sim_steps":             steps,
		"runs_per_hour":         int(float64(len(items)) / (wall + 1e-9) * 3600),
		"counters":              stats,
		"distinct_switch_sites": len(switchSites),
		"known_findings_seen":   knownSeen,
		"components": map[string]string{
			"parser, meta, node, nodeutil, val (everything the clients call)": "real (instrumented copy, -race)",
			"goroutine scheduling of the clients":                             "simulator-owned (serialised, seeded)",
			"opener/streams":                                                  "in-memory",
		},
	}
	ev := &kit.Evidence{PropertyID: "C20", Tier: tier, Seed: int64(seed), Level: "exploration", Coverage: cov,
		Assumptions: []string{
			"the hand-off between clients is invisible to the race detector (plain loads/stores in //go:norace code), so reports reflect the program's own happens-before relation; a 5% sample of scenarios is re-executed at another GOMAXPROCS and must give the same fingerprint, results and report count",
			"the serialising scheduler explores interleavings at statement granularity of the instrumented packages; code outside them (standard library) runs atomically",
		}, WallS: wall, Violations: nviol}
	if err := ev.Write(); err != nil {
		fmt.Fprintln(os.Stderr, "harness:", err)
		return 2
	}
	fmt.Printf("C20: schedules=%d distinct=%d violations=%d known=%d wall=%.1fs\n  counters: %s\n", len(items), len(prints), nviol, len(knownSeen), wall, stats.String())
	if harness > 0 && exit == 1 {
		// violations were found and reported; that a scenario also behaved differently
		// on repetition is then most likely the library's own doing (a pool, a cache
		// filled by whoever comes first), not a reason to discard the report
		fmt.Fprintln(os.Stderr, "note: the run also saw scenarios that were not repeatable across GOMAXPROCS; the violations above stand")
		return 1
	}
	if harness > 0 {
		return 2
	}
	if len(prints) < 2 {
		return 2
	}
	return exit
}

// c20Minimise drops clients and operations while the same key persists.
func c20Minimise(sc *sched.Scenario, key string) *sched.Scenario {
	try := func(c *sched.Scenario) bool {
		res := c20ExecBoth(c)
		for _, f := range c20Oracle(c, &res) {
			if f.key == key {
				return true
			}
		}
		return false
	}
	best := *sc
	budget := kit.NewBudget(40 * time.Second)
	improved := true
	for improved && !budget.Exceeded() {
		improved = false
		for i := 0; i < len(best.Clients) && len(best.Clients) > 1 && !budget.Exceeded(); i++ {
			c := best
			c.Clients = append(append([]sched.Client(nil), best.Clients[:i]...), best.Clients[i+1:]...)
			if try(&c) {
				best, improved = c, true
				break
			}
		}
		if improved {
			continue
		}
		for i := range best.Clients {
			for j := range best.Clients[i].Ops {
				if budget.Exceeded() {
					break
				}
				c := best
				c.Clients = append([]sched.Client(nil), best.Clients...)
				cl := c.Clients[i]
				cl.Ops = append(append([]sched.Op(nil), cl.Ops[:j]...), cl.Ops[j+1:]...)
				c.Clients[i] = cl
				if try(&c) {
					best, improved = c, true
					break
				}
			}
			if improved {
				break
			}
		}
	}
	if !try(&best) {
		return sc
	}
	return &best
}

func c20Replay(raw json.RawMessage) ([]*kit.Violation, error) {
	var sc sched.Scenario
	if err := json.Unmarshal(raw, &sc); err != nil {
		return nil, err
	}
	res := c20ExecBoth(&sc)
	var vs []*kit.Violation
	for _, f := range c20Oracle(&sc, &res) {
		vs = append(vs, &kit.Violation{Property: "C20", Key: f.key, Detail: f.detail, LogHash: res.Fingerprint, Scenario: raw})
	}
	return vs, nil
}

func init() {
	// verif-inst-race c20-scenario <i>: print scenario i of the current VERIF_SEED
	Workers["c20-scenario"] = func() {
		i := 0
		fmt.Sscan(os.Args[2], &i)
		r := kit.NewRng(kit.Mix(kit.Seed(), "C20", i))
		os.Stdout.Write(mustJSON(c20Gen(r)))
	}
}

// c20ExecBoth runs the concurrent pass and the alone-in-a-fresh-process pass.
func c20ExecBoth(sc *sched.Scenario) sched.Result {
	res := sched.Exec(sc, 120*time.Second)
	scA := *sc
	scA.AloneOnly = true
	ra := sched.Exec(&scA, 120*time.Second)
	if ra.Err == "" && ra.Fatal == "" {
		res.AloneFresh = ra.Alone
	}
	return res
}
