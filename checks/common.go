// Package checks holds one simulated check per claimed property plus the
// batch runner, reporting and replay plumbing they share.
package checks

import (
	"encoding/json"
	"fmt"
	"os"
	"runtime"
	"sort"
	"sync"
	"time"

	"verif/sim/kit"
)

// RunOut is what one simulated run (one seed) reports.
type RunOut struct {
	Index      int
	Seed       uint64
	Evals      int      // executions performed by this run (faulted + baseline)
	Prints     []uint64 // event-log fingerprints of non-trivial executions
	Violations []*kit.Violation
	Stats      kit.Counter
	Sample     interface{}
	Steps      int64 // seam crossings
	HarnessErr string
}

type Check struct {
	Property string
	Level    string
	Rule     string
	Assume   []string
	// Run executes run i.
	Run func(i int, seed uint64, tier string) RunOut
	// Minimise shrinks a violation's scenario; may be nil.
	Minimise func(v *kit.Violation) *kit.Violation
	// Replay re-executes a stored scenario and returns the violations found.
	Replay func(scenario json.RawMessage) ([]*kit.Violation, error)
	// QuickRuns is the fixed number of runs of the quick tier.
	QuickRuns int
	// ThoroughTime bounds the thorough tier (it also has a run cap).
	ThoroughTime time.Duration
	ThoroughRuns int
	Components   map[string]string
	Extra        func(cov map[string]interface{}, outs []RunOut)
	Exhaustive   bool
	// Custom replaces the generic batch loop (checks that run cases in
	// supervised worker processes).
	Custom func(c *Check, tier string) int
}

// Workers maps a worker sub-command to its body (registered by instrumented-
// build files).
var Workers = map[string]func(){}

func workers() int {
	w := kit.EnvInt("VERIF_WORKERS", runtime.NumCPU())
	if w < 1 {
		w = 1
	}
	return w
}

// Batch runs the check and returns the process exit code.
func (c *Check) Batch(tier string) int {
	if c.Custom != nil {
		return c.Custom(c, tier)
	}
	start := time.Now()
	seed := kit.Seed()
	fmt.Printf("check %s tier=%s VERIF_SEED=%d workers=%d\n", c.Property, tier, seed, workers())
	findings, err := kit.LoadFindings()
	if err != nil {
		fmt.Fprintln(os.Stderr, "harness:", err)
		return 2
	}
	n := c.QuickRuns
	var budget *kit.Budget
	if tier == "thorough" {
		n = c.ThoroughRuns
		d := c.ThoroughTime
		if s := kit.EnvInt("VERIF_THOROUGH_SECONDS", 0); s > 0 {
			d = time.Duration(s) * time.Second
		}
		budget = kit.NewBudget(d)
	} else {
		if q := kit.EnvInt("VERIF_QUICK_RUNS", 0); q > 0 {
			n = q
		}
		budget = kit.NewBudget(0)
	}
	outs := make([]RunOut, 0, 4096)
	var mu sync.Mutex
	next := 0
	var wg sync.WaitGroup
	for w := 0; w < workers(); w++ {
		wg.Add(1)
		go func() {
			defer wg.Done()
			for {
				mu.Lock()
				if next >= n || budget.Exceeded() {
					mu.Unlock()
					return
				}
				i := next
				next++
				mu.Unlock()
				o := c.runGuarded(i, kit.Mix(seed, c.Property, i), tier)
				mu.Lock()
				outs = append(outs, o)
				mu.Unlock()
			}
		}()
	}
	wg.Wait()
	sort.Slice(outs, func(i, j int) bool { return outs[i].Index < outs[j].Index })
	return c.finish(tier, seed, outs, findings, time.Since(start).Seconds())
}

func (c *Check) runGuarded(i int, seed uint64, tier string) (o RunOut) {
	defer func() {
		if p := recover(); p != nil {
			buf := make([]byte, 4096)
			buf = buf[:runtime.Stack(buf, false)]
			o = RunOut{Index: i, Seed: seed, HarnessErr: fmt.Sprintf("run %d (seed %d) panicked in harness: %v\n%s", i, seed, p, buf)}
		}
	}()
	o = c.Run(i, seed, tier)
	o.Index = i
	o.Seed = seed
	return
}

func (c *Check) finish(tier string, seed uint64, outs []RunOut, findings *kit.Findings, wall float64) int {
	evals := 0
	var steps int64
	batch := kit.NewLog(0) // batch fingerprint: every execution's event-log hash, in run order
	prints := map[uint64]bool{}
	stats := kit.Counter{}
	var samples []interface{}
	byKey := map[string]*kit.Violation{}
	var keys []string
	keyCount := kit.Counter{}
	harness := 0
	for _, o := range outs {
		if o.HarnessErr != "" {
			harness++
			fmt.Fprintln(os.Stderr, "harness:", o.HarnessErr)
			continue
		}
		evals += o.Evals
		steps += o.Steps
		for _, p := range o.Prints {
			prints[p] = true
			batch.Add("%d:%016x", o.Index, p)
		}
		batch.Add("%d evals=%d viol=%d", o.Index, o.Evals, len(o.Violations))
		if o.Stats != nil {
			stats.Merge(o.Stats)
		}
		if o.Sample != nil && len(samples) < 3 {
			samples = append(samples, o.Sample)
		}
		for _, v := range o.Violations {
			keyCount.Inc(v.Key)
			if _, ok := byKey[v.Key]; !ok {
				byKey[v.Key] = v
				keys = append(keys, v.Key)
			}
		}
	}
	sort.Strings(keys)
	exit := 0
	nviol := 0
	var knownSeen []string
	for _, k := range keys {
		v := byKey[k]
		if f := findings.Known(c.Property, k); f != nil {
			fmt.Printf("KNOWN-FINDING: property=%s %s [%s] (seen %d times)\n", c.Property, f.What, k, keyCount[k])
			knownSeen = append(knownSeen, k)
			continue
		}
		nviol++
		if c.Minimise != nil && mayMinimise() {
			if m := c.Minimise(v); m != nil {
				v = m
			}
		}
		path, err := kit.WriteReplay(v)
		if err != nil {
			fmt.Fprintln(os.Stderr, "harness: cannot write replay:", err)
			return 2
		}
		fmt.Printf("VIOLATION property=%s replay=%s\n", c.Property, path)
		fmt.Printf("  key=%s (seen %d times)\n  %s\n", k, keyCount[k], v.Detail)
		exit = 1
	}
	findings.PrintUnmet(c.Property, knownSeen)
	cov := map[string]interface{}{
		"evaluations":         evals,
		"distinct_nontrivial": len(prints),
		"rule":                c.Rule,
		"samples":             samples,
		"runs":                len(outs),
		"sim_steps":           steps,
		"runs_per_hour":       int(float64(len(outs)) / (wall + 1e-9) * 3600),
		"counters":            stats,
		"components":          c.Components,
		"known_findings_seen": knownSeen,
		"simulated_time":      "no clock in the code under test: reported as sim_steps (seam crossings / yields)",
		"batch_fingerprint":   batch.HashHex(),
	}
	if c.Exhaustive {
		cov["exhaustive"] = true
	}
	if c.Extra != nil {
		c.Extra(cov, outs)
	}
	ev := &kit.Evidence{
		PropertyID:  c.Property,
		Tier:        tier,
		Seed:        int64(seed),
		Level:       c.Level,
		Coverage:    cov,
		Assumptions: c.Assume,
		WallS:       wall,
		Violations:  nviol,
	}
	if err := ev.Write(); err != nil {
		fmt.Fprintln(os.Stderr, "harness: cannot write evidence:", err)
		return 2
	}
	fmt.Printf("%s: runs=%d evaluations=%d distinct=%d violations=%d known=%d wall=%.1fs\n",
		c.Property, len(outs), evals, len(prints), nviol, len(knownSeen), wall)
	fmt.Printf("  counters: %s\n", stats.String())
	if harness > 0 {
		fmt.Fprintf(os.Stderr, "harness: %d runs failed inside the harness\n", harness)
		return 2
	}
	if len(prints) < 2 || evals < 1 {
		fmt.Fprintln(os.Stderr, "harness: too little explored to mean anything")
		return 2
	}
	return exit
}

// ReplayFile re-executes a replay file and reports whether the same
// violation (same key) reappears with the same event-log hash.
func (c *Check) ReplayFile(path string) int {
	v, err := kit.ReadReplay(path)
	if err != nil {
		fmt.Fprintln(os.Stderr, "harness:", err)
		return 2
	}
	vs, err := c.Replay(v.Scenario)
	if err != nil {
		fmt.Fprintln(os.Stderr, "harness:", err)
		return 2
	}
	for _, x := range vs {
		if x.Key == v.Key {
			same := x.LogHash == v.LogHash
			fmt.Printf("REPRODUCED property=%s key=%s log_hash=%s same_hash=%v\n  %s\n", c.Property, x.Key, x.LogHash, same, x.Detail)
			if !same {
				fmt.Println("  (event log differs from the recorded one: the code or the harness changed since the file was written)")
			}
			return 1
		}
	}
	fmt.Printf("NOT-REPRODUCED property=%s key=%s (%d other violations)\n", c.Property, v.Key, len(vs))
	for _, x := range vs {
		fmt.Printf("  other: %s %s\n", x.Key, x.Detail)
	}
	return 0
}

var Registry = map[string]func() *Check{}

// mayMinimise rations minimisation: a change that breaks a property in many
// ways at once produces hundreds of distinct keys, and shrinking each of them
// would turn a one-minute check into an hour. The first few keys (in sorted
// order) are minimised within a total time budget; the rest are reported with
// their original scenario, which replays all the same.
var (
	minimStart time.Time
	minimCount int
)

func mayMinimise() bool {
	if minimCount == 0 {
		minimStart = time.Now()
	}
	minimCount++
	return minimCount <= 8 && time.Since(minimStart) < 150*time.Second
}
