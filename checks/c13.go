//go:build verif

package checks

import (
	"encoding/json"
	"fmt"
	"os"
	"regexp"
	"sort"
	"strings"
	"time"

	"verif/sim/kit"
	"verif/sim/model"
	"verif/sim/req"
	"verif/sim/schema"
	"verif/sim/store"
	"verif/sim/super"
)

// C13 (part) — no request content can crash the library once the schema is
// valid: sessions of damaged requests against a live store. What simulation
// adds is (1) request bodies arrive through a stream that can fail, be cut or
// corrupt a byte, (2) "data stored before the rejected request remains
// readable" is an after-failure state invariant over a history, (3) a
// deterministic step budget detects non-termination. For the string-typed
// surfaces the "fault" is a seeded mutation of a valid request string.

var structural = []byte("{}[]\",:<>/=&?%!;()'*.-+ \\\x00")

var jsonTok = regexp.MustCompile(`"(?:[^"\\]|\\.)*"|-?[0-9][0-9.eE+-]*|true|false|null|[{}\[\],:]`)
var xmlTok = regexp.MustCompile(`<[^>]*>|[^<]+`)
var pathTok = regexp.MustCompile(`[^/=,?&]+|[/=,?&]`)

func tokens(kind, s string) [][]int {
	switch kind {
	case "json":
		return jsonTok.FindAllStringIndex(s, -1)
	case "xml":
		return xmlTok.FindAllStringIndex(s, -1)
	}
	return pathTok.FindAllStringIndex(s, -1)
}

// damage applies one fault of the channel to a string.
func damage(r *kit.Rng, kind, s string) (string, string, bool) {
	if len(s) == 0 {
		return s + string(structural[r.Intn(len(structural))]), "append-structural", false
	}
	switch r.Intn(7) {
	case 0:
		k := r.Range(1, len(s)-1)
		if len(s) < 3 {
			k = r.Intn(len(s))
		}
		return s[:k], "truncate", k > 0 && k < len(s)
	case 1:
		k := r.Intn(len(s))
		b := []byte(s)
		if r.Chance(1, 2) {
			b[k] = structural[r.Intn(len(structural))]
		} else {
			b[k] = byte(r.Intn(256))
		}
		return string(b), "flip-byte", false
	case 2, 3, 4:
		toks := tokens(kind, s)
		if len(toks) < 2 {
			return s[:len(s)/2], "truncate", true
		}
		i := r.Intn(len(toks))
		t := toks[i]
		switch r.Intn(3) {
		case 0:
			return s[:t[0]] + s[t[1]:], "drop-token", false
		case 1:
			return s[:t[1]] + s[t[0]:t[1]] + s[t[1]:], "duplicate-token", false
		default:
			j := r.Intn(len(toks))
			if i == j {
				j = (i + 1) % len(toks)
			}
			a, b := toks[i], toks[j]
			if a[0] > b[0] {
				a, b = b, a
			}
			return s[:a[0]] + s[b[0]:b[1]] + s[a[1]:b[0]] + s[a[0]:a[1]] + s[b[1]:], "swap-tokens", false
		}
	case 5:
		k := r.Intn(len(s) + 1)
		return s[:k] + string(structural[r.Intn(len(structural))]) + s[k:], "insert-structural", false
	default:
		k := r.Intn(len(s))
		return s[:k] + s[k:] + s[k:], "duplicate-tail", false
	}
}

// shapeSwapJSON renders the tree as JSON with the node named target replaced
// by a value of another kind.
func shapeSwapJSON(t *model.Tree, target *schema.Node, repl string) string {
	var b strings.Builder
	var obj func(t *model.Tree)
	scalar := func(s *schema.Node, v string) string {
		switch s.Type {
		case "int8", "int16", "int32", "int64", "uint8", "uint16", "uint32", "uint64", "decimal64", "boolean":
			return v
		case "empty":
			return "[null]"
		}
		x, _ := json.Marshal(v)
		return string(x)
	}
	obj = func(t *model.Tree) {
		b.WriteString("{")
		first := true
		for _, c := range t.S.DataChildren() {
			if !t.Has(c.Name) && c != target {
				continue
			}
			if !first {
				b.WriteString(",")
			}
			first = false
			fmt.Fprintf(&b, "%q:", c.Name)
			if c == target {
				b.WriteString(repl)
				continue
			}
			switch c.Kind {
			case schema.Leaf:
				b.WriteString(scalar(c, t.Leaf[c.Name]))
			case schema.LeafList:
				b.WriteString("[")
				for i, v := range t.LL[c.Name] {
					if i > 0 {
						b.WriteString(",")
					}
					b.WriteString(scalar(c, v))
				}
				b.WriteString("]")
			case schema.Container:
				obj(t.Cont[c.Name])
			case schema.List:
				b.WriteString("[")
				for i, e := range t.List[c.Name].Entries {
					if i > 0 {
						b.WriteString(",")
					}
					obj(e)
				}
				b.WriteString("]")
			}
		}
		b.WriteString("}")
	}
	obj(t)
	return b.String()
}

var jsonRepl = []string{"null", "5", "\"x\"", "true", "{}", "[]", "[null]", "[5]", "[[]]", "[{}]", "{\"x\":1}", "[\"a\",{}]", "1e999", "-0", "\"\"", "[[1],[2]]"}
var setValues = []string{"null", "5", "-1", "\"x\"", "true", "{}", "[]", "[1,2]", "[\"a\"]", "1e40", "3.7", "\"\"", "{\"a\":1}", "[null]", "99999999999999999999", "\"true\"", "[[1]]", "\"a b\"", "256", "-129", "\"YQ==\"", "\"***\""}
var longXPath = strings.Repeat("d/", 300) + "x"
var manyOps = "a=1" + strings.Repeat(" and a=1", 100)

var xpaths = []string{longXPath, manyOps, "%s" + strings.Repeat("/%s", 70) + "=1", "%s=1", "%s='a'", "%s!=2", "%s<3", "%s>=0", "%s", "%s=", "=%s", "%s==1", "%s='", "(%s=1", "%s=1)", "%s/x=1", "../%s=1", "%s[1]", "%s=1 and %s=2", "*", "/", "", "%s<'z'", "%s>true", "zz=1", "%s=99999999999999999999"}
var queries = []string{"fc.range=!-2", "fc.range=%s!-2", "fc.range=%s!-2-5", "fc.range=%s!5", "fc.range=%s!0-0", "fc.range=%s!3-", "fc.range=%s!-", "fc.range=%s!1--1", "fc.range=%s/%s!0-1", "depth=-2", "fc.max-node-count=-1", "fields=" + strings.Repeat("a/", 300) + "b", "fields=" + strings.Repeat("a;", 300), "fc.xfields=" + strings.Repeat("(", 50), "depth=99999999999999999999", "fc.range=%s!1-99999999999999999999", "fc.max-node-count=99999999999999999999", "depth=%d", "depth=0", "depth=-1", "depth=x", "content=config", "content=nonconfig", "content=bogus", "fields=%s", "fields=%s;%s", "fields=%s/%s", "fields=(", "fields=%s(", "fields=;", "fc.xfields=%s", "fc.xfields=%s/x/y/z", "fc.range=%s!1-2", "fc.range=%s!-", "fc.range=!", "fc.range=%s!x-y", "fc.range=%s!2-1", "fc.range=zz!1-2", "fc.max-node-count=1", "fc.max-node-count=0", "fc.max-node-count=-5", "with-defaults=trim", "with-defaults=bogus", "depth=1&fields=%s", "where=%s%%3D1", "filter=%s", "%%zz", "a=b&&&=", "fields=%s/%s/%s/%s/%s"}

func c13Gen(r *kit.Rng, id string) *req.Session {
	rich := r.Chance(1, 2)
	var s *schema.Node
	sk := "ctl"
	var o model.GenOpts
	if rich {
		s = schema.GenerateRich(r, "m", r.Range(25, 50), r.Range(2, 4))
		o = model.GenOpts{Nasty: r.Chance(1, 2), MaxEntries: 3, Density: 70, KeyPool: 6}
		// swarm knob: key strings with commas in them (paths and range queries built from
		// such keys address another entry or none; either is a normal result)
		o.CommaKeys = r.Chance(1, 5)
	} else {
		sk = []string{"rmap", "nstruct", "nmap", "ctl", "rstruct", "nacc"}[r.Intn(6)]
		st, _ := store.New(sk)
		caps := st.Caps()
		caps.MaxNodes = r.Range(10, 25)
		s = schema.Generate(r, caps, "m", caps.Choices && r.Chance(1, 2), true)
		o = st.GenOpts()
		o.Density = 70
	}
	init := model.Random(r, s, o.WithBudget(60), 0)
	sess := &req.Session{ID: id, Schema: s, Store: sk, Init: init}
	p := []int{30, 60, 100}[r.Intn(3)] // swarm: share of damaged requests
	paths := init.AllPaths()
	var names []string
	s.Walk(func(x *schema.Node) {
		if x.IsData() {
			names = append(names, x.Name)
		}
	})
	name := func() string { return names[r.Intn(len(names))] }
	n := r.Range(5, 30)
	for i := 0; i < n; i++ {
		var at model.Path
		if len(paths) > 0 && r.Chance(2, 3) {
			at = paths[r.Intn(len(paths))]
		}
		loc, _ := init.Resolve(at)
		var rq req.Request
		rq.Damage = "none"
		hurt := r.Intn(100) < p
		if s.Actions && r.Chance(1, 6) {
			// a request aimed at an rpc: the body is the edit source of the rpc's input
			// object (zznoin declares no input; a body may arrive all the same)
			src := r.Pick([]string{"json", "json", "xml"})
			rq.Kind = "action-" + src
			rq.Path = r.Pick([]string{"zzact", "zzact", "zznoin"})
			doc := r.Pick([]string{`{"aa":"x","ab":3}`, `{"aa":"y"}`, `{}`, `{"ab":7}`, ``})
			if src == "xml" {
				doc = r.Pick([]string{`<input><aa>x</aa><ab>3</ab></input>`, `<input><aa>y</aa></input>`, `<input/>`, ``})
			}
			rq.Doc = doc
			if hurt && doc != "" {
				switch r.Intn(3) {
				case 0:
					rq.Doc, rq.Damage, _ = damage(r, src, doc)
				case 1:
					rq.Doc = r.Pick([]string{`{"aa":{}}`, `{"aa":[1]}`, `{"ab":"x"}`, `{"zz":1}`, `[]`, `null`, `{"aa":null}`, `{"bar":"x"}`, `<input><aa><b/></aa></input>`, `<x><zz/></x>`})
					rq.Damage = "shape-swap:rpc-input"
				default:
					rq.Damage = "none"
				}
			}
			sess.Requests = append(sess.Requests, rq)
			continue
		}
		switch r.Intn(10) {
		case 0, 1, 2, 3: // edit with a body
			src := r.Pick([]string{"json", "json", "xml"})
			rq.Kind = "edit-" + src
			rq.Strategy = r.Pick([]string{"upsert", "upsert", "insert", "update"})
			rq.Path = at.String()
			var doc string
			var payload *model.Tree
			if loc.Tree != nil {
				payload = mutate(r, loc.Tree, o, true)
				if src == "json" {
					doc = payload.JSON()
				} else {
					doc = payload.XML("x")
				}
			} else if loc.List != nil {
				l := model.RandomList(r, loc.S, o, 1)
				if src == "json" {
					doc = l.JSON()
				} else {
					doc = l.XML()
				}
			}
			rq.Doc = doc
			if r.Chance(1, 3) {
				rq.Chunks = []int{r.Range(1, 7), r.Range(1, 64)}
			}
			if hurt {
				switch r.Intn(5) {
				case 0, 1:
					var inside bool
					rq.Doc, rq.Damage, inside = damage(r, src, doc)
					rq.Inside = inside && rq.Damage == "truncate"
				case 2:
					if len(doc) > 2 {
						rq.ReadKind = r.Pick([]string{"error", "eof"})
						rq.ReadAt = r.Range(1, len(doc)-1)
						rq.Damage = "read-" + rq.ReadKind
						rq.Inside = true
					}
				case 3:
					rq.ReadKind = "eof-with-data"
					rq.Damage = "read-eof-with-data"
				default:
					// shape swap at a schema position
					if payload != nil && src == "json" {
						var kids []*schema.Node
						for _, c := range payload.S.DataChildren() {
							if payload.Has(c.Name) { // swapping an absent node could name a second case of a choice
								kids = append(kids, c)
							}
						}
						if len(kids) > 0 {
							t := kids[r.Intn(len(kids))]
							repl := jsonRepl[r.Intn(len(jsonRepl))]
							rq.Doc = shapeSwapJSON(payload, t, repl)
							rq.Damage = "shape-swap:" + t.Kind.String()
							// a container must be an object, a list an array of objects
							switch t.Kind {
							case schema.Container:
								rq.MustReject = !strings.HasPrefix(repl, "{")
							case schema.List:
								rq.MustReject = !strings.HasPrefix(repl, "[") || (repl != "[]" && !strings.HasPrefix(repl, "[{"))
							}
						}
					} else if payload == nil && loc.List != nil && src == "json" {
						// the edit is rooted at a list selection: the document's one member must
						// be an array of objects
						repl := jsonRepl[r.Intn(len(jsonRepl))]
						rq.Doc = fmt.Sprintf("{%q:%s}", loc.S.Name, repl)
						rq.Damage = "shape-swap:list-at-entry-point"
						rq.MustReject = !strings.HasPrefix(repl, "[") || (repl != "[]" && !strings.HasPrefix(repl, "[{"))
					} else if payload == nil && loc.List != nil {
						xi := r.Intn(3)
						frag := strings.ReplaceAll([]string{"<%s>text</%s>", "<%s/>", "<%s><zz/></%s>"}[xi], "%s", loc.S.Name)
						if r.Chance(1, 2) {
							for _, e := range loc.List.Entries {
								frag = e.XML(loc.S.Name) + frag
							}
						}
						rq.Doc = "<x>" + frag + "</x>"
						rq.Damage = "shape-swap:list-at-entry-point"
						rq.MustReject = xi == 0
					} else if payload != nil {
						kids := payload.S.DataChildren()
						if len(kids) > 0 {
							t := kids[r.Intn(len(kids))]
							xi := r.Intn(7)
							x := []string{"<%s>text</%s>", "<%s><zz/></%s>", "<%s/>", "<%s><%s/></%s>", "<%s> </%s><%s>1</%s>",
								// the misshapen element is not the first of its run
								"<%s>a</%s><%s>b</%s><%s><zz/></%s>", "<%s>text</%s>"}[xi]
							frag := strings.ReplaceAll(x, "%s", t.Name)
							if xi == 6 && t.Kind == schema.List && payload.List[t.Name] != nil {
								for _, e := range payload.List[t.Name].Entries {
									frag = e.XML(t.Name) + frag
								}
							}
							rq.Doc = "<x>" + frag + "</x>"
							rq.Damage = "shape-swap:" + t.Kind.String()
							// text where elements are declared, elements where text is declared
							switch {
							case (t.Kind == schema.Container || t.Kind == schema.List) && (xi == 0 || xi == 6):
								rq.MustReject = true
							case (t.Kind == schema.Leaf || t.Kind == schema.LeafList) && (xi == 1 || xi == 3):
								rq.MustReject = true
							case t.Kind == schema.LeafList && xi == 5:
								// (for a leaf only the first element of the run is the leaf's value)
								rq.MustReject = true
							}
						}
					}
				}
			}
		case 4, 5: // find
			rq.Kind = "find"
			rq.Path = at.String()
			if hurt {
				switch r.Intn(4) {
				case 0:
					rq.Path, rq.Damage, _ = damage(r, "path", rq.Path)
				case 1:
					rq.Path = strings.TrimSuffix(rq.Path+"/"+name(), "/")
					rq.Damage = "step-below"
				case 2:
					rq.Path = rq.Path + "=" + r.Pick([]string{"k0", "1", "a,b", ",", "%", "%zz", "a,b,c,d"})
					rq.Damage = "key-on-anything"
				default:
					// relative paths are given to a selection somewhere inside the tree
					rq.From = at.String()
					rq.Path = r.Pick([]string{"../", "../../x", "../y?", "../../x?a", "../../../l?depth=1", "../?", "../" + name() + "?depth=1", "../../" + name() + "?x", "..?", "../..", "/", "//", name() + "/" + name() + "/" + name(), "m:" + name(), ":" + name(), name() + ":", "=", "?", "a=b=c", strings.Repeat("../", 5)})
					rq.Damage = "odd-path"
				}
			}
		case 6, 7: // query parameters
			rq.Kind = "query"
			rq.Path = at.String()
			q := queries[r.Intn(len(queries))]
			for strings.Contains(q, "%s") {
				q = strings.Replace(q, "%s", name(), 1)
			}
			q = strings.ReplaceAll(q, "%d", fmt.Sprint(r.Range(1, 5)))
			rq.Query = q
			rq.Damage = "query-catalogue"
			if hurt {
				rq.Query, rq.Damage, _ = damage(r, "path", q)
			}
		case 8: // where
			rq.Kind = "where"
			// aim at a list when there is one
			for _, pp := range paths {
				if l, ok := init.Resolve(pp); ok && l.Tree == nil && l.List != nil {
					rq.Path = pp.String()
					break
				}
			}
			x := xpaths[r.Intn(len(xpaths))]
			for strings.Contains(x, "%s") {
				x = strings.Replace(x, "%s", name(), 1)
			}
			if hurt {
				x, rq.Damage, _ = damage(r, "path", x)
			} else {
				rq.Damage = "xpath-catalogue"
			}
			rq.Query = "where=" + req.EscapeQuery(x)
		default: // SetValue
			rq.Kind = "setvalue"
			rq.Path = at.String()
			if loc.Tree != nil {
				var leaves []string
				for _, c := range loc.Tree.S.DataChildren() {
					if c.Kind == schema.Leaf || c.Kind == schema.LeafList {
						leaves = append(leaves, c.Name)
					}
				}
				if len(leaves) > 0 {
					rq.Path = strings.TrimPrefix(rq.Path+"/"+leaves[r.Intn(len(leaves))], "/")
				}
			}
			rq.Value = json.RawMessage(setValues[r.Intn(len(setValues))])
			rq.Damage = "value-catalogue"
		}
		sess.Requests = append(sess.Requests, rq)
	}
	return sess
}

func c13Key(surface string, o *req.ReqOutcome) (string, string) {
	switch {
	case o.Kind == "panic":
		return fmt.Sprintf("panic:%s:%s:%s", surface, o.PanicAt, o.Panic), fmt.Sprintf("panic (%s) at %s [%s]", o.Panic, o.PanicAt, o.Stack)
	case o.Kind == "budget":
		return fmt.Sprintf("hang:%s:%s", surface, o.PanicAt), fmt.Sprintf("the request did not finish within the step budget (%d yields); innermost frames: %s", o.Steps, o.Stack)
	case o.ProblemK != "":
		return o.ProblemK, o.Problem
	}
	return "", ""
}

func init() {
	Registry["C13"] = func() *Check {
		return &Check{Property: "C13", Custom: c13Batch, Replay: c13Replay}
	}
	Workers["worker-req"] = func() {
		super.Serve(func(in []byte) []byte {
			var s req.Session
			if err := json.Unmarshal(in, &s); err != nil {
				return mustJSON(&req.SessOutcome{Err: err.Error()})
			}
			o := req.Run(&s)
			return mustJSON(&o)
		})
	}
}

func c13Exec(sessions []*req.Session, stop func() bool) ([]req.SessOutcome, error) {
	payloads := make([][]byte, len(sessions))
	for i, s := range sessions {
		payloads[i] = mustJSON(s)
	}
	replies, done, err := super.Run("worker-req", nil, payloads, workers(), 120*time.Second, stop)
	if err != nil {
		return nil, err
	}
	var outs []req.SessOutcome
	for i, rp := range replies {
		if !done[i] {
			continue
		}
		var o req.SessOutcome
		switch {
		case rp.Timeout:
			o = req.SessOutcome{ID: sessions[i].ID, Err: "timeout"}
		case rp.Died:
			o = req.SessOutcome{ID: sessions[i].ID, Fatal: super.FatalClass(rp.Stderr), FatalAt: super.FatalFrame(rp.Stderr), Stderr: firstLines(rp.Stderr, 8)}
		default:
			if err := json.Unmarshal(rp.Data, &o); err != nil {
				o = req.SessOutcome{ID: sessions[i].ID, Err: "bad worker reply: " + err.Error()}
			}
		}
		outs = append(outs, o)
	}
	return outs, nil
}

func c13Batch(c *Check, tier string) int {
	start := time.Now()
	seed := kit.Seed()
	fmt.Printf("check C13 tier=%s VERIF_SEED=%d workers=%d\n", tier, seed, workers())
	findings, err := kit.LoadFindings()
	if err != nil {
		fmt.Fprintln(os.Stderr, "harness:", err)
		return 2
	}
	n := kit.EnvInt("VERIF_QUICK_RUNS", 10000)
	limit := 3 * time.Minute
	if tier == "thorough" {
		n = 1 << 30
		limit = 20 * time.Minute
		if s := kit.EnvInt("VERIF_THOROUGH_SECONDS", 0); s > 0 {
			limit = time.Duration(s) * time.Second
		}
	}
	budget := kit.NewBudget(limit)
	stats := kit.Counter{}
	prints := map[string]bool{}
	var steps int64
	type hit struct {
		detail string
		sess   *req.Session
		upto   int
		n      int
		hash   string
	}
	viol := map[string]*hit{}
	harness := 0
	evals := 0
	var samples []interface{}
	var fpLines []string
	total := 0
	// rounds of sessions (memory stays bounded in the time-budgeted tier)
	const round = 50000
	for base := 0; base < n && !budget.Exceeded(); base += round {
		byID := map[string]*req.Session{}
		var sessions []*req.Session
		for i := base; i < base+round && i < n; i++ {
			s := c13Gen(kit.NewRng(kit.Mix(seed, "C13", i)), fmt.Sprint("s", i))
			sessions = append(sessions, s)
			byID[s.ID] = s
		}
		outs, err := c13Exec(sessions, budget.Exceeded)
		if err != nil {
			fmt.Fprintln(os.Stderr, "harness:", err)
			return 2
		}
		total += len(outs)
		for oi := range outs {
			fpLines = append(fpLines, outs[oi].ID+"|"+outs[oi].LogHash)
		}
		for oi := range outs {
			o := &outs[oi]
			s := byID[o.ID]
			if o.Err != "" {
				harness++
				fmt.Fprintf(os.Stderr, "harness: session %s: %s\n", o.ID, o.Err)
				continue
			}
			if o.Fatal != "" {
				k := "fatal:" + o.Fatal + ":" + o.FatalAt
				if h, ok := viol[k]; ok {
					h.n++
				} else {
					viol[k] = &hit{detail: "the worker died: " + o.Fatal + " at " + o.FatalAt + " — " + o.Stderr, sess: s, upto: len(s.Requests), n: 1}
				}
				continue
			}
			prints[o.LogHash] = true
			for i := range o.Outcomes {
				ro := &o.Outcomes[i]
				rq := &s.Requests[i]
				evals++
				steps += ro.Steps
				stats.Inc("request:" + rq.Kind)
				stats.Inc("damage:" + strings.SplitN(rq.Damage, ":", 2)[0])
				stats.Inc("outcome:" + ro.Kind)
				if ro.Fired {
					stats.Inc("fault-fired:reader-" + rq.ReadKind)
				}
				surface := rq.Kind
				k, d := c13Key(surface, ro)
				if k == "" {
					continue
				}
				d = fmt.Sprintf("request %d (%s, damage %s, path %q, query %q, doc %s): %s", i, rq.Kind, rq.Damage, rq.Path, rq.Query, trunc(rq.Doc, 200), d)
				if h, ok := viol[k]; ok {
					h.n++
					if i+1 < h.upto {
						h.detail, h.sess, h.upto, h.hash = d, s, i+1, o.LogHash
					}
				} else {
					viol[k] = &hit{detail: d, sess: s, upto: i + 1, n: 1, hash: o.LogHash}
				}
			}
			if len(samples) < 2 && len(s.Requests) > 0 {
				var rs []string
				for i, rq := range s.Requests {
					if i < 6 {
						rs = append(rs, fmt.Sprintf("%s [%s] path=%q query=%q doc=%s -> %s", rq.Kind, rq.Damage, rq.Path, rq.Query, trunc(rq.Doc, 80), o.Outcomes[i].Kind))
					}
				}
				samples = append(samples, map[string]interface{}{"store": s.Store, "requests": len(s.Requests), "first_requests": rs})
			}
		}
	}
	var keys []string
	for k := range viol {
		keys = append(keys, k)
	}
	sort.Strings(keys)
	exit, nviol := 0, 0
	var knownSeen []string
	for _, k := range keys {
		h := viol[k]
		if f := findings.Known("C13", k); f != nil {
			fmt.Printf("KNOWN-FINDING: property=C13 %s [%s] (seen %d times)\n", f.What, k, h.n)
			knownSeen = append(knownSeen, k)
			continue
		}
		nviol++
		s2 := *h.sess
		s2.Requests = s2.Requests[:h.upto]
		min := &s2
		if mayMinimise() {
			min = c13Minimise(&s2, k)
		}
		v := &kit.Violation{Property: "C13", Oracle: strings.SplitN(k, ":", 2)[0], Key: k, Detail: h.detail, Seed: seed, LogHash: h.hash, Scenario: mustJSON(min), Minimised: true}
		path, err := kit.WriteReplay(v)
		if err != nil {
			fmt.Fprintln(os.Stderr, "harness:", err)
			return 2
		}
		fmt.Printf("VIOLATION property=C13 replay=%s\n  key=%s (seen %d times)\n  %s\n", path, k, h.n, trunc(h.detail, 900))
		exit = 1
	}
	sort.Strings(fpLines)
	batch := kit.NewLog(0)
	for _, l := range fpLines {
		batch.Add("%s", l)
	}
	wall := time.Since(start).Seconds()
	findings.PrintUnmet("C13", knownSeen)
	cov := map[string]interface{}{
		"batch_fingerprint":   batch.HashHex(),
		"evaluations":         evals,
		"distinct_nontrivial": len(prints),
		"rule":                "one session = a generated schema (half of them two-module schemas with every leaf type), a live store (map-/struct-backed Reflect and Node, control) pre-loaded with a conforming tree, and 5-30 requests, each first generated valid (edit with JSON or XML body at a Found path with upsert/insert/update; Find; read with query parameters from a catalogue; where= XPath from a catalogue; SetValue with a JSON-decoded Go value) and then, with probability 30/60/100% per session, passed through the fault channel: truncate, flip a byte (random or structural), drop/duplicate/swap a token, insert a structural character, reader error or EOF at byte k, (n,EOF) reads with seeded chunk sizes, shape swap at a schema position (object/array/scalar/null where another kind is declared, in JSON and XML), key on a non-list, step below a leaf, odd relative paths. Oracles per request: no panic, returns within the step budget, worker survives; a body cut strictly inside is rejected; after a rejected edit the store exports and every pre-existing leaf is unchanged or holds a value the request carries, and nothing the request does not address is removed; reads never change the store. evaluations counts requests; distinct_nontrivial counts distinct session logs (stream calls + per-request outcome)",
		"samples":             samples,
		"sim_steps":           steps,
		"runs_per_hour":       int(float64(total) / (wall + 1e-9) * 3600),
		"counters":            stats,
		"known_findings_seen": knownSeen,
		"components": map[string]string{
			"JSON/XML readers, Find/path parsing, query constraints, xpath lexer/parser/evaluator, NewValue/conversion, editor": "real (instrumented copy, step budget)",
			"stores":              "real (nodeutil.Reflect / nodeutil.Node) and harness control store for the all-types schemas",
			"request body stream": "simulated (simio.Reader)",
		},
		"not_decided": "the property quantifies over every byte string; this check samples seeded single-fault mutations of valid requests, which for the string-typed surfaces is mutation-based input generation driven by the simulator's stream and nothing more",
	}
	ev := &kit.Evidence{PropertyID: "C13", Tier: tier, Seed: int64(seed), Level: "exploration", Coverage: cov,
		Assumptions: []string{"instrumentation (tools/selfcheck.sh)", "a damaged document that is still valid may be accepted; its meaning is not predicted"},
		WallS:       wall, Violations: nviol}
	if err := ev.Write(); err != nil {
		fmt.Fprintln(os.Stderr, "harness:", err)
		return 2
	}
	fmt.Printf("C13: sessions=%d requests=%d distinct=%d violations=%d known=%d wall=%.1fs\n  counters: %s\n", total, evals, len(prints), nviol, len(knownSeen), wall, stats.String())
	if harness > 0 || len(prints) < 2 {
		return 2
	}
	return exit
}

// c13Minimise drops requests before the failing one while the key persists.
func c13Minimise(s *req.Session, key string) *req.Session {
	try := func(c *req.Session) bool {
		outs, err := c13Exec([]*req.Session{c}, nil)
		if err != nil || len(outs) != 1 {
			return false
		}
		o := &outs[0]
		if o.Fatal != "" {
			return "fatal:"+o.Fatal+":"+o.FatalAt == key
		}
		for i := range o.Outcomes {
			if k, _ := c13Key(c.Requests[i].Kind, &o.Outcomes[i]); k == key {
				return true
			}
		}
		return false
	}
	best := *s
	budget := kit.NewBudget(10 * time.Second)
	// the failing request alone?
	if len(best.Requests) > 1 {
		c := best
		c.Requests = best.Requests[len(best.Requests)-1:]
		if try(&c) {
			best = c
		}
	}
	for i := 0; i+1 < len(best.Requests) && !budget.Exceeded(); {
		c := best
		c.Requests = append(append([]req.Request(nil), best.Requests[:i]...), best.Requests[i+1:]...)
		if try(&c) {
			best = c
		} else {
			i++
		}
	}
	for _, t := range treeShrinks(best.Init) {
		if budget.Exceeded() {
			break
		}
		c := best
		c.Init = t
		if try(&c) {
			best = c
		}
	}
	return &best
}

func c13Replay(raw json.RawMessage) ([]*kit.Violation, error) {
	var s req.Session
	if err := json.Unmarshal(raw, &s); err != nil {
		return nil, err
	}
	outs, err := c13Exec([]*req.Session{&s}, nil)
	if err != nil {
		return nil, err
	}
	var vs []*kit.Violation
	for _, o := range outs {
		if o.Fatal != "" {
			vs = append(vs, &kit.Violation{Property: "C13", Key: "fatal:" + o.Fatal + ":" + o.FatalAt, Detail: o.Stderr, Scenario: raw})
		}
		for i := range o.Outcomes {
			if k, d := c13Key(s.Requests[i].Kind, &o.Outcomes[i]); k != "" {
				vs = append(vs, &kit.Violation{Property: "C13", Key: k, Detail: d, LogHash: o.LogHash, Scenario: raw})
			}
		}
	}
	return vs, nil
}
