package checks

import (
	"encoding/json"
	"errors"
	"fmt"
	"os"
	"strings"
	"time"

	"github.com/freeconf/yang/node"

	"verif/sim/kit"
	"verif/sim/model"
	"verif/sim/schema"
	"verif/sim/sess"
	"verif/sim/simnode"
	"verif/sim/store"
)

// Histories of edit operations against a live store, checked against the
// reference model after every operation (C03, C09, C18). Two configurations:
// fault-free (strict equality) and fault-injecting (one callback of one
// operation fails; narrow relaxation; then the model is re-synchronised).

type histScenario struct {
	Prop   string       `json:"property"`
	Schema *schema.Node `json:"schema"`
	Store  string       `json:"store"`
	Init   *model.Tree  `json:"init"`
	Ops    []sess.Op    `json:"ops"`
	Into   []bool       `json:"into,omitempty"`  // per op: push from a source browser into the store's node
	Fault  *histFault   `json:"fault,omitempty"` // at most one fault per history
}

type histFault struct {
	Op   int               `json:"op"` // index of the faulted operation
	At   int               `json:"at"` // callback offset from the start of that operation
	Kind simnode.FaultKind `json:"kind"`
}

func (sc *histScenario) bind() error {
	sc.Schema.Link()
	sc.Init.Bind(sc.Schema)
	for i := range sc.Ops {
		if err := sc.Ops[i].Bind(sc.Schema); err != nil {
			return err
		}
	}
	return nil
}

type histCfg struct {
	prop        string
	checkCases  bool // C09: at most one case
	checkKeys   bool // C18: unique keys, Find by key
	checkMerge  bool // C03: error classes per statement
	exportEvery bool
}

type histFinding struct {
	key, oracle, detail string
	op                  int
}

type histResult struct {
	findings []histFinding
	log      *kit.Log
	steps    int64
	stats    kit.Counter
	applied  int   // operations that changed the store
	opTrace  []int // callbacks per operation (fault-free)
	fired    bool
}

// normalise prepares a tree for comparison with what the store can represent.
func normalise(t *model.Tree) *model.Tree {
	return t.Clone().DropEmptyLists()
}

func histRun(env *sess.Env, sc *histScenario, cfg histCfg) histResult {
	res := histResult{log: kit.NewLog(120), stats: kit.Counter{}}
	skey := store.KeyName(sc.Store) // store kind as it appears in finding keys (hook mask dropped)
	add := func(op int, oracle, key, detail string) {
		res.findings = append(res.findings, histFinding{key: key, oracle: oracle, detail: fmt.Sprintf("op %d (%s): %s", op, sc.Ops[op].String(), detail), op: op})
	}
	st, err := store.New(sc.Store)
	if err != nil {
		res.findings = append(res.findings, histFinding{key: "harness", detail: err.Error()})
		return res
	}
	if err := st.Load(sc.Schema, sc.Init); err != nil {
		res.findings = append(res.findings, histFinding{key: "harness", detail: err.Error()})
		return res
	}
	cur := sc.Init.Clone()
	sets := st.ListsAsSets()
	for i, op := range sc.Ops {
		before := cur.Clone()
		want := cur.Clone()
		out, resolved := sess.ApplyModel(want, op)
		if !resolved {
			res.stats.Inc("op-skipped-entry-point-gone")
			continue
		}
		faulted := sc.Fault != nil && sc.Fault.Op == i
		ss := simnode.NewSession(res.log, nil)
		start := 0
		ss.OnOpStart = func() {
			start = len(ss.Events)
			if faulted {
				ss.Faults = []simnode.Fault{{At: start + sc.Fault.At, Kind: sc.Fault.Kind}}
			}
		}
		into := i < len(sc.Into) && sc.Into[i]
		var r sess.Result
		if into {
			full := before.Clone()
			full.SetAt(op.At, op.Tree, op.List)
			r = sess.ExecInto(env, st, op, full, ss)
		} else {
			r = sess.Exec(env, st, op, ss, nil)
		}
		res.steps += int64(len(ss.Events))
		res.opTrace = append(res.opTrace, len(ss.Events)-start)
		res.log.Add("op %d %s -> err=%v panic=%v", i, op.Kind, r.Err != nil, r.Panic != nil)
		if op.ViaRpc && !faulted {
			if r.Err == nil && r.Panic == nil {
				res.stats.Inc("op:delivered-as-rpc-input")
			} else {
				res.stats.Inc("op:delivered-as-rpc-input:failed")
			}
		}
		did := faulted && len(ss.Fired) > 0
		if did {
			res.fired = true
			f := ss.Fired[0]
			res.stats.Inc("fault:" + string(f.Fault) + ":" + f.Call)
		}
		kindKey := op.Kind
		if into {
			kindKey += "-into"
		}
		if r.Panic != nil {
			add(i, "panic", fmt.Sprintf("panic:%s:%s", r.PanicAt, sess.NormPanic(r.Panic)), fmt.Sprintf("panic %v at %s [%s]", r.Panic, r.PanicAt, r.Stack))
			// state unknown: re-synchronise and go on
			if w, err := st.Walk(); err == nil {
				cur = w
			}
			continue
		}
		if r.NotFound {
			if loc, ok := before.Resolve(op.At); ok && loc.Tree == nil && loc.List != nil && len(loc.List.Entries) == 0 {
				res.stats.Inc("dont-care:empty list as entry point")
				continue
			}
			add(i, "find", "entry-point-not-found:"+skey, "the entry point exists in the model but Find returned no selection")
			continue
		}
		walked, werr := st.Walk()
		if werr != nil {
			add(i, "garbage", "store-holds-garbage:"+skey, "after the operation the store's Go value is not a well-formed tree: "+werr.Error())
			return res
		}
		got := normalise(walked)
		if os.Getenv("VERIF_DEBUG") != "" {
			fmt.Printf("DEBUG op %d %s\n   err=%v\n   store=%s\n", i, op.String(), r.Err, walked.String())
			for _, e := range ss.Events[start:] {
				fmt.Println("     ", e.String())
			}
		}

		if did {
			// ---- fault-injecting configuration: narrow relaxation
			if r.Err == nil && ss.Fired[0].Call != "Choose" {
				res.stats.Inc("faulted-op-returned-nil")
			}
			// half-made entries (key leaf never written) belong to the operation's footprint
			outside := model.Diff(normalise(before.Without(op.At)), normalise(completeEntries(walked).Without(op.At)), true)
			if len(op.At) > 0 && outside != "" {
				add(i, "footprint", "faulted-op-changed-data-outside-its-footprint:"+skey+":"+kindKey, "a failed operation changed data outside the subtree it addresses: "+outside)
			}
			if d := model.OldOrNew(got, normalise(before), normalise(want), ""); d != "" && out.Err == model.OK {
				add(i, "old-or-new", "faulted-op-left-neither-old-nor-new:"+skey+":"+kindKey, d)
			}
			// A failing Choose of the TARGET is the documented fall-through of the
			// editor (it proceeds without clearing; C12's known finding): the
			// property quantifies over targets that implement case detection.
			targetChoose := ss.Fired[0].Call == "Choose" && ss.Fired[0].Side == "T"
			if cfg.checkCases && !targetChoose {
				if d := got.TwoCases(); d != "" {
					add(i, "one-case", "two-cases-after-failed-edit:"+skey, d+" (after a callback of the edit failed)")
				}
			}
			if cfg.checkKeys {
				if d := completeEntries(walked).DupKeys(); d != "" {
					add(i, "unique-keys", "duplicate-keys-after-failed-edit:"+skey, d)
				}
			}
			// The history ends here: what a later operation does with a half-made
			// entry (no key leaf, say) is not something the property speaks about.
			return res
		}

		// ---- fault-free configuration: strict
		// invariants first: they hold whatever else this operation got wrong
		if cfg.checkCases {
			if d := got.TwoCases(); d != "" {
				add(i, "one-case", "two-cases:"+skey, d)
			}
		}
		if cfg.checkKeys {
			if d := walked.DupKeys(); d != "" {
				add(i, "unique-keys", "duplicate-keys:"+skey, d)
			}
		}
		class := r.Class()
		switch {
		case out.Err == model.OK && r.Err != nil:
			add(i, "error-class", fmt.Sprintf("unexpected-error:%s:%s", skey, kindKey), fmt.Sprintf("the statement predicts success, the call returned %v", r.Err))
			cur = walked
			continue
		case out.Err != model.OK && r.Err == nil:
			if out.DontCare != "" {
				res.stats.Inc("dont-care:" + out.DontCare)
				cur = walked
				continue
			}
			where := out.Where
			if where == "" {
				where = "entry-level"
			}
			add(i, "error-class", fmt.Sprintf("missing-%s-error:%s:%s", out.Err, where, kindKey), fmt.Sprintf("the statement predicts a %s error (%s), the call returned nil", out.Err, where))
			cur = walked
			continue
		case out.Err != model.OK && r.Err != nil:
			if class != out.Err && out.DontCare == "" {
				add(i, "error-class", fmt.Sprintf("wrong-error-class:%s:%s", out.Err, kindKey), fmt.Sprintf("expected an error matching %s with errors.Is, got %v", out.Err, r.Err))
			}
			// a failed edit is not transactional; outside its footprint nothing may change
			if len(op.At) > 0 {
				if d := model.Diff(normalise(before.Without(op.At)), normalise(walked.Without(op.At)), true); d != "" {
					add(i, "footprint", "failed-op-changed-data-outside-its-footprint:"+skey+":"+kindKey, d)
				}
			}
			res.stats.Inc("predicted-failure:" + out.Err.String())
			cur = walked
			continue
		}
		// both succeeded: the store must equal the model
		exp := normalise(want)
		if d := model.Diff(exp, got, sets); d != "" {
			what := "content"
			if op.Kind == "delete" || op.Kind == "replace" {
				what = op.Kind
			}
			if op.Kind == "sweep" || op.Kind == "batch-delete" {
				what = "delete"
			}
			// is the difference outside the operation's footprint?
			if len(op.At) > 0 && model.Diff(normalise(before.Without(op.At)), normalise(walked.Without(op.At)), true) != "" {
				what = "outside-footprint"
			}
			add(i, "store-equals-model", fmt.Sprintf("store-differs-from-model:%s:%s:%s", skey, kindKey, what), fmt.Sprintf("store (walked directly) differs from the model at %s\n   model: %s\n   store: %s", d, exp.String(), got.String()))
			cur = walked
			continue
		}
		if model.Diff(normalise(before), got, sets) != "" {
			res.applied++
		}
		cur = walked // equal modulo empty lists / order; adopt the store's view of those

		if r.Walked {
			// a second walk through the list selection that was kept across the edits
			// must meet exactly the entries the list holds
			if loc, ok := want.Resolve(op.At); ok && loc.List != nil {
				seen := map[string]int{}
				for _, k := range r.Walk {
					seen[strings.Join(k, "\x00")]++
				}
				d := ""
				for k, n := range seen {
					if n > 1 {
						d = fmt.Sprintf("entry %q is met %d times", strings.ReplaceAll(k, "\x00", ","), n)
					}
				}
				if d == "" && len(r.Walk) != len(loc.List.Entries) {
					d = fmt.Sprintf("%d entries met, the list holds %d", len(r.Walk), len(loc.List.Entries))
				}
				for _, e := range loc.List.Entries {
					if d == "" && seen[strings.Join(e.Key(), "\x00")] == 0 {
						d = fmt.Sprintf("entry %v is not met", e.Key())
					}
				}
				if d != "" {
					add(i, "walk-kept-selection", "walk-through-kept-list-selection:"+skey, "walking the list again through the selection kept across the edits: "+d)
				}
			}
		}
		if cfg.checkKeys {
			if d := findAll(env, st, walked, before); d != "" {
				add(i, "find-by-key", "find-by-key:"+skey, d)
			}
		}
		// reading through the library reports exactly what is there
		if exp2, err := sess.Export(env, st); err != nil {
			add(i, "export", "export-failed:"+skey, "export of the store failed: "+err.Error())
		} else {
			e2 := normalise(exp2)
			g2 := got
			// an export reports the schema default of an unset leaf, and a struct
			// field cannot be unset
			e2 = dropZeroLeaves(e2, g2, st.ZeroIsUnset())
			if d := model.Diff(g2, e2, sets); d != "" {
				add(i, "export-equals-store", "export-differs-from-store:"+skey, fmt.Sprintf("the tree exported through the library differs from the store content at %s", d))
			}
		}
	}
	return res
}

// completeEntries drops list entries whose key leaves were never written.
func completeEntries(t *model.Tree) *model.Tree {
	c := t.Clone()
	var walk func(x *model.Tree)
	walk = func(x *model.Tree) {
		for _, l := range x.List {
			var keep []*model.Tree
			for _, e := range l.Entries {
				ok := true
				for _, k := range l.S.Keys {
					if _, h := e.Leaf[k]; !h {
						ok = false
					}
				}
				if ok {
					keep = append(keep, e)
					walk(e)
				}
			}
			l.Entries = keep
		}
		for _, ct := range x.Cont {
			walk(ct)
		}
	}
	walk(c)
	return c
}

// dropZeroLeaves removes from exported tree e the leaves that hold a zero
// value where the store (walked) has none: a struct field cannot be unset.
func dropZeroLeaves(e, walked *model.Tree, zeroIsUnset bool) *model.Tree {
	var walk func(a, b *model.Tree)
	walk = func(a, b *model.Tree) {
		for n, v := range a.Leaf {
			if b != nil {
				if _, ok := b.Leaf[n]; ok {
					continue
				}
			}
			if zeroIsUnset && (v == "0" || v == "false" || v == "" || v == "0.00") {
				delete(a.Leaf, n)
				continue
			}
			if c := a.S.Child(n); c != nil && c.Default != "" && c.Default == v {
				delete(a.Leaf, n)
			}
		}
		for n, v := range a.LL {
			if len(v) == 0 {
				if b == nil || len(b.LL[n]) == 0 {
					delete(a.LL, n)
				}
			}
		}
		for n, c := range a.Cont {
			var bc *model.Tree
			if b != nil {
				bc = b.Cont[n]
			}
			walk(c, bc)
		}
		for n, l := range a.List {
			for _, en := range l.Entries {
				var be *model.Tree
				if b != nil && b.List[n] != nil {
					_, be = b.List[n].Find(en.Key())
				}
				walk(en, be)
			}
		}
	}
	walk(e, walked)
	return e
}

// findAll checks that every entry is found under the key its key leaves hold
// and that keys removed by the last operation are not found any more.
func findAll(env *sess.Env, st store.Store, now, before *model.Tree) string {
	b := node.NewBrowser(env.Mod, st.Root())
	root := b.Root()
	check := func(p model.Path, want bool) (msg string) {
		defer func() {
			if r := recover(); r != nil {
				msg = fmt.Sprintf("Find(%s) panicked: %v", p, r)
			}
		}()
		sel, err := root.Find(p.String())
		if err != nil {
			return fmt.Sprintf("Find(%s) returned error %v", p, err)
		}
		if want && sel == nil {
			return fmt.Sprintf("entry %s exists (walked directly) but Find does not return it", p)
		}
		if !want && sel != nil {
			return fmt.Sprintf("Find(%s) still returns a selection after the node was removed", p)
		}
		return ""
	}
	// list entries and containers (a list as a whole may be present-but-empty
	// in one store and absent in another: not asked)
	isNode := func(t *model.Tree, p model.Path) bool {
		if p[len(p)-1].Key != nil {
			return true
		}
		loc, ok := t.Resolve(p)
		return ok && loc.Tree != nil
	}
	nowSet := map[string]bool{}
	for _, p := range now.AllPaths() {
		nowSet[p.String()] = true
		if len(p) > 0 && isNode(now, p) {
			if m := check(p, true); m != "" {
				return m
			}
		}
	}
	for _, p := range before.AllPaths() {
		if !nowSet[p.String()] && len(p) > 0 && isNode(before, p) {
			// only when the parent still exists (otherwise the path is moot)
			if _, ok := now.Resolve(p[:len(p)-1]); ok || len(p) == 1 {
				if m := check(p, false); m != "" {
					return m
				}
			}
		}
	}
	return ""
}

// ---------------------------------------------------------------- generic check driver

type histGen func(r *kit.Rng) *histScenario

func histViolations(sc *histScenario, res *histResult, seed uint64) []*kit.Violation {
	var out []*kit.Violation
	for _, f := range res.findings {
		s2 := *sc
		// keep the history up to and including the failing operation
		if f.op+1 < len(s2.Ops) {
			s2.Ops = s2.Ops[:f.op+1]
			if len(s2.Into) > f.op+1 {
				s2.Into = s2.Into[:f.op+1]
			}
		}
		out = append(out, &kit.Violation{Property: sc.Prop, Oracle: f.oracle, Key: f.key, Detail: f.detail, Seed: seed,
			LogHash: res.log.HashHex(), LogTail: res.log.Lines, Scenario: sess.MarshalScenario(&s2)})
	}
	return out
}

func histReplay(cfg histCfg) func(raw json.RawMessage) ([]*kit.Violation, error) {
	return func(raw json.RawMessage) ([]*kit.Violation, error) {
		var sc histScenario
		if err := json.Unmarshal(raw, &sc); err != nil {
			return nil, err
		}
		if err := sc.bind(); err != nil {
			return nil, err
		}
		env, err := sess.Compile(sc.Schema)
		if err != nil {
			return nil, err
		}
		res := histRun(env, &sc, cfg)
		return histViolations(&sc, &res, 0), nil
	}
}

// histMinimise drops operations and shrinks trees while the same key persists.
func histMinimise(cfg histCfg) func(v *kit.Violation) *kit.Violation {
	return func(v *kit.Violation) *kit.Violation {
		var sc histScenario
		if json.Unmarshal(v.Scenario, &sc) != nil || sc.bind() != nil {
			return nil
		}
		env, err := sess.Compile(sc.Schema)
		if err != nil {
			return nil
		}
		try := func(c *histScenario) *kit.Violation {
			res := histRun(env, c, cfg)
			for _, x := range histViolations(c, &res, v.Seed) {
				if x.Key == v.Key {
					return x
				}
			}
			return nil
		}
		best := try(&sc)
		if best == nil {
			return nil
		}
		budget := kit.NewBudget(15 * time.Second)
		improved := true
		for improved && !budget.Exceeded() {
			improved = false
			// drop an operation (not the last one)
			for i := 0; i+1 < len(sc.Ops) && !budget.Exceeded(); i++ {
				c := sc
				c.Ops = append(append([]sess.Op(nil), sc.Ops[:i]...), sc.Ops[i+1:]...)
				if len(sc.Into) == len(sc.Ops) {
					c.Into = append(append([]bool(nil), sc.Into[:i]...), sc.Into[i+1:]...)
				}
				if c.Fault != nil {
					f := *c.Fault
					if f.Op == i {
						continue
					}
					if f.Op > i {
						f.Op--
					}
					c.Fault = &f
				}
				if x := try(&c); x != nil {
					sc, best, improved = c, x, true
					break
				}
			}
			if improved {
				continue
			}
			for _, t := range treeShrinks(sc.Init) {
				if budget.Exceeded() {
					break
				}
				c := sc
				c.Init = t
				if x := try(&c); x != nil {
					sc, best, improved = c, x, true
					break
				}
			}
			if improved {
				continue
			}
			for oi := range sc.Ops {
				if sc.Ops[oi].Tree == nil || budget.Exceeded() {
					continue
				}
				for _, t := range treeShrinks(sc.Ops[oi].Tree) {
					c := sc
					c.Ops = append([]sess.Op(nil), sc.Ops...)
					c.Ops[oi].Tree = t
					if x := try(&c); x != nil {
						sc, best, improved = c, x, true
						break
					}
				}
				if improved {
					break
				}
			}
		}
		best.Minimised = true
		best.Original = v.Scenario
		return best
	}
}

// histCheck builds a Check from a scenario generator.
func histCheck(prop string, cfg histCfg, gen histGen, faultShare int, rule string, assume []string, quick int) *Check {
	c := &Check{
		Property:     prop,
		Level:        "exploration",
		Rule:         rule,
		Assume:       assume,
		QuickRuns:    quick,
		ThoroughRuns: 1 << 30,
		ThoroughTime: 10 * time.Minute,
		Components: map[string]string{
			"editor, Selection, Browser, Find (node/*)": "real",
			"stores: nodeutil.Reflect over maps / StructOf structs, nodeutil.Node over maps / StructOf structs / hand-written types with getter-setter methods and yang tags (nacc), each optionally with pass-through hooks": "real",
			"sources: nodeutil JSON reader, XML reader":                      "real",
			"control store and model-backed source (mnode), reference model": "harness",
			"recording fault-injecting node wrapper (simnode)":               "harness",
		},
	}
	c.Run = func(i int, seed uint64, tier string) RunOut {
		r := kit.NewRng(seed)
		sc := gen(r)
		sc.Prop = prop
		out := RunOut{Stats: kit.Counter{}}
		env, err := sess.Compile(sc.Schema)
		if err != nil {
			out.HarnessErr = err.Error()
			return out
		}
		// fault-free configuration
		res := histRun(env, sc, cfg)
		out.Evals++
		out.Steps += res.steps
		out.Stats.Merge(res.stats)
		out.Stats.Inc("histories:fault-free")
		out.Stats.Inc("store:" + store.KeyName(sc.Store))
		out.Stats.Add("operations", len(sc.Ops))
		for _, o := range sc.Ops {
			out.Stats.Inc("op:" + o.Kind)
		}
		for _, f := range res.findings {
			if f.key == "harness" {
				out.HarnessErr = f.detail
				return out
			}
		}
		out.Violations = append(out.Violations, histViolations(sc, &res, seed)...)
		if res.applied > 0 {
			out.Prints = append(out.Prints, res.log.Hash())
		}
		if i < 2 {
			var ops []string
			for _, o := range sc.Ops {
				ops = append(ops, o.String())
			}
			out.Sample = map[string]interface{}{"store": sc.Store, "initial_tree": sc.Init.String(), "history": ops, "schema_nodes": sc.Schema.Count()}
		}
		// fault-injecting configuration: same history, one fault inside one operation
		if faultShare > 0 && len(res.findings) == 0 && len(res.opTrace) > 0 {
			nf := faultShare
			if tier == "thorough" {
				nf *= 3
			}
			for k := 0; k < nf; k++ {
				oi := r.Intn(len(res.opTrace))
				if res.opTrace[oi] <= 0 {
					continue
				}
				kinds := []simnode.FaultKind{simnode.FError, simnode.FError, simnode.FRefuse, simnode.FAfterEffect}
				f := &histFault{Op: oi, At: r.Intn(res.opTrace[oi]), Kind: kinds[r.Intn(len(kinds))]}
				s2 := *sc
				s2.Fault = f
				fres := histRun(env, &s2, cfg)
				out.Evals++
				out.Steps += fres.steps
				out.Stats.Merge(fres.stats)
				if fres.fired {
					out.Stats.Inc("histories:faulted")
					out.Prints = append(out.Prints, fres.log.Hash())
				} else {
					out.Stats.Inc("fault-did-not-fire (history diverged earlier)")
				}
				// target Choose faults are the documented fall-through (C12's known finding), not counted here
				var keep []histFinding
				for _, x := range fres.findings {
					keep = append(keep, x)
				}
				fres.findings = keep
				out.Violations = append(out.Violations, histViolations(&s2, &fres, seed)...)
			}
		}
		return out
	}
	c.Replay = histReplay(cfg)
	c.Minimise = histMinimise(cfg)
	return c
}

var _ = errors.Is
var _ = strings.Join
