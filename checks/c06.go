//go:build verif

package checks

import (
	"encoding/json"
	"fmt"
	"os"
	"sort"
	"strings"
	"time"

	"verif/sim/kit"
	"verif/sim/load"
	"verif/sim/modset"
)

// C06 (part) — sibling definitions keep their textual order, and loading the
// same text again, in this or another process, yields an identical schema.
// The nondeterminism the property names — Go's randomised map iteration — is
// behind the map-order seam of the instrumented build, so the simulator
// permutes it deliberately instead of hoping a repeated real load differs.

type c06Set struct {
	Features string            `json:"features,omitempty"` // parser.Options.Features of every load of this set ("off:x"); order oracles are then skipped, only load-to-load identity is demanded
	ID       string            `json:"id"`
	Set      *modset.Set       `json:"set,omitempty"`
	Main     string            `json:"main_name"`
	Files    map[string]string `json:"files"`
}

type c06Scenario struct {
	Set   c06Set         `json:"module_set"`
	Order load.OrderSpec `json:"order"`
}

func c06Case(s *c06Set, id string, o load.OrderSpec, dump bool) *load.Case {
	return &load.Case{ID: s.ID + "|" + id, MainName: s.Main, Files: s.Files, Order: o, WantOrder: true, WantDump: dump, Features: s.Features}
}

func firstDiff(a, b string) (string, string, string) {
	la, lb := strings.Split(a, "\n"), strings.Split(b, "\n")
	for i := 0; i < len(la) && i < len(lb); i++ {
		if la[i] != lb[i] {
			// the accessor whose rendering differs
			acc := strings.TrimSpace(la[i])
			if j := strings.Index(acc, "="); j > 0 {
				acc = acc[:j]
			}
			// owner: nearest earlier line that opens an object at lower indentation
			owner := ""
			indent := len(la[i]) - len(strings.TrimLeft(la[i], " "))
			for k := i - 1; k >= 0; k-- {
				ind := len(la[k]) - len(strings.TrimLeft(la[k], " "))
				if ind < indent && strings.Contains(la[k], "*meta.") {
					t := la[k][strings.Index(la[k], "*meta."):]
					if e := strings.IndexAny(t, "{ "); e > 0 {
						t = t[:e]
					}
					owner = t
					break
				}
			}
			return owner + "." + acc, trunc(la[i], 160), trunc(lb[i], 160)
		}
	}
	return "length", fmt.Sprint(len(la)), fmt.Sprint(len(lb))
}

func trunc(s string, n int) string {
	s = strings.TrimSpace(s)
	if len(s) > n {
		return s[:n] + "…"
	}
	return s
}

func isSubsequence(sub, full []string) bool {
	i := 0
	for _, x := range full {
		if i < len(sub) && sub[i] == x {
			i++
		}
	}
	return i == len(sub)
}

func init() {
	Registry["C06"] = func() *Check {
		return &Check{Property: "C06", Custom: c06Batch, Replay: c06Replay}
	}
}

// c06Eval runs reference + permuted + per-site reversed loads of one module
// set and returns violations.
var thoroughMode bool

func c06Eval(sets []*c06Set, nPerm int, perSite bool, r *kit.Rng, budget *kit.Budget, stats kit.Counter, prints map[string]bool, steps *int64, sitesSeen map[int32]int, vectors map[string]bool) ([]*kit.Violation, int, error) {
	// stage 1: reference loads
	var refs []*load.Case
	for _, s := range sets {
		c := c06Case(s, "ref", load.OrderSpec{Mode: "sorted"}, false)
		c.Twice = true
		refs = append(refs, c)
	}
	refOut, err := load.Supervise(refs, workers(), 60*time.Second, budget.Exceeded)
	if err != nil {
		return nil, 0, err
	}
	byID := map[string]*load.Outcome{}
	for i := range refOut {
		byID[refOut[i].ID] = &refOut[i]
	}
	var cases []*load.Case
	owner := map[string]*c06Set{}
	for _, s := range sets {
		ref := byID[s.ID+"|ref"]
		if ref == nil || ref.Kind != "module" {
			continue
		}
		c := c06Case(s, "ref-again", load.OrderSpec{Mode: "sorted"}, false)
		cases = append(cases, c)
		owner[c.ID] = s
		if _, ok := s.Files[s.Main]; ok {
			// the same text handed over as a string instead of by name
			c := c06Case(s, "ref-via-string", load.OrderSpec{Mode: "sorted"}, false)
			c.ViaString = true
			cases = append(cases, c)
			owner[c.ID] = s
		}
		for i := 0; i < nPerm; i++ {
			c := c06Case(s, fmt.Sprintf("perm%d", i), load.OrderSpec{Mode: "perm", Seed: r.Uint64()}, false)
			cases = append(cases, c)
			owner[c.ID] = s
		}
		total := 0
		for _, t := range s.Files {
			total += len(t)
		}
		if perSite && (thoroughMode || s.Set != nil || total < 60000) {
			var sites []int
			for site := range ref.Visits {
				sites = append(sites, int(site))
			}
			sort.Ints(sites)
			for _, site := range sites {
				c := c06Case(s, fmt.Sprintf("rev-site%d", site), load.OrderSpec{Mode: "reverse1", Site: int32(site)}, false)
				cases = append(cases, c)
				owner[c.ID] = s
			}
		}
	}
	outs, err := load.Supervise(cases, workers(), 60*time.Second, budget.Exceeded)
	if err != nil {
		return nil, 0, err
	}
	evals := len(refOut) + len(outs)
	var viols []*kit.Violation
	add := func(s *c06Set, o load.OrderSpec, key, detail, hash string) {
		sc := c06Scenario{Set: *s, Order: o}
		viols = append(viols, &kit.Violation{Property: "C06", Oracle: strings.SplitN(key, ":", 2)[0], Key: key, Detail: detail + " — module set " + s.ID, LogHash: hash, Scenario: mustJSON(&sc)})
	}
	// reference-level checks: outcome, twice, textual order
	for _, s := range sets {
		ref := byID[s.ID+"|ref"]
		if ref == nil {
			continue
		}
		*steps += ref.Steps
		for site, n := range ref.Visits {
			sitesSeen[site] += n
		}
		if ref.Kind != "module" {
			if s.Set != nil && s.Features != "" && ref.Kind == "error" {
				// (a deviation or augment may name a node that the feature configuration removed)
				stats.Inc("generated-set-not-loadable-under-its-feature-configuration")
				continue
			}
			if s.Set != nil {
				add(s, load.OrderSpec{Mode: "sorted"}, "generated-set-does-not-load:"+ref.Kind, fmt.Sprintf("a generated, well-formed module set did not load: %s %s %s", ref.Kind, ref.Err, ref.PanicAt), ref.LogHash)
			} else {
				stats.Inc("corpus-file-not-a-loadable-module")
			}
			continue
		}
		stats.Inc("module-sets")
		if ref.Dump2Hash != ref.DumpHash {
			add(s, load.OrderSpec{Mode: "sorted"}, "second-load-differs-same-process", fmt.Sprintf("loading the same text twice in one process gave different schemas (dump hash %s then %s)", ref.DumpHash, ref.Dump2Hash), ref.LogHash)
		}
		if s.Set != nil && s.Features == "" {
			for key, want := range s.Set.Expect {
				if strings.HasPrefix(key, "~~") {
					path := key[2:strings.Index(key, "#")]
					if got := ref.OrderTrace[path]; !isSubsequence(want, got) {
						add(s, load.OrderSpec{Mode: "sorted"}, "textual-order:augments-from-submodules", fmt.Sprintf("children of %q written by %s: %v, compiled %v", path, key[strings.Index(key, "#")+1:], want, got), ref.LogHash)
					}
					continue
				}
				if strings.HasPrefix(key, "~") {
					if got := ref.OrderTrace[""]; !isSubsequence(want, got) {
						add(s, load.OrderSpec{Mode: "sorted"}, "textual-order:submodule-top-level", fmt.Sprintf("top-level definitions of submodule %s are not in textual order: written %v, compiled root has %v", key[1:], want, got), ref.LogHash)
					}
					continue
				}
				got, ok := ref.OrderTrace[key]
				if key == "" {
					if !isSubsequence(want, got) {
						add(s, load.OrderSpec{Mode: "sorted"}, "textual-order:module-top-level", fmt.Sprintf("top-level definitions are not in textual order: written %v, compiled %v", want, got), ref.LogHash)
					}
					continue
				}
				if !ok || strings.Join(got, " ") != strings.Join(want, " ") {
					kind := "container-or-list"
					if strings.Contains(key, "/input") || strings.Contains(key, "/output") {
						kind = "rpc-io"
					}
					add(s, load.OrderSpec{Mode: "sorted"}, "textual-order:"+kind, fmt.Sprintf("definitions under %q are not in textual order (uses expanded in place, augments appended): written %v, compiled %v", key, want, got), ref.LogHash)
				}
			}
			for key, want := range s.Set.Lists {
				got := ref.OrderTrace[key]
				if _, there := ref.OrderTrace["seen:"+key[strings.Index(key, ":")+1:]]; !there && !strings.HasPrefix(key, "rev:") && !strings.HasPrefix(key, "idbase:") && !strings.HasPrefix(key, "features:") {
					continue // written in a grouping nobody uses, or removed by the deviation
				}
				if strings.Join(got, "\x00") != strings.Join(want, "\x00") {
					kind := key[:strings.Index(key, ":")]
					add(s, load.OrderSpec{Mode: "sorted"}, "textual-order:"+kind, fmt.Sprintf("%s members of %q: written %v, compiled %v", kind, key[len(kind)+1:], want, got), ref.LogHash)
				}
				if kind := key[:strings.Index(key, ":")]; kind == "enum" {
					// the schema-level enum list must agree with the value-level one
					if g2 := ref.OrderTrace["enums:"+key[5:]]; strings.Join(g2, "\x00") != strings.Join(want, "\x00") {
						add(s, load.OrderSpec{Mode: "sorted"}, "textual-order:enum", fmt.Sprintf("enum statements of %q: written %v, compiled %v", key[5:], want, g2), ref.LogHash)
					}
				}
			}
			for key, want := range s.Set.Cases {
				got := ref.OrderTrace["case:"+key]
				if strings.Join(got, " ") != strings.Join(want, " ") {
					add(s, load.OrderSpec{Mode: "sorted"}, "textual-order:cases", fmt.Sprintf("cases of choice %q: written %v, compiled %v", key, want, got), ref.LogHash)
				}
			}
		}
	}
	// permuted loads against the reference
	type mism struct {
		s *c06Set
		c *load.Case
		o *load.Outcome
	}
	var mismatches []mism
	caseByID := map[string]*load.Case{}
	for _, c := range cases {
		caseByID[c.ID] = c
	}
	for i := range outs {
		o := &outs[i]
		s := owner[o.ID]
		ref := byID[s.ID+"|ref"]
		*steps += o.Steps
		c := caseByID[o.ID]
		stats.Inc("load:" + c.Order.Mode)
		for site, n := range o.Visits {
			sitesSeen[site] += n
		}
		vectors[fmt.Sprintf("%s|%s|%d|%d", s.ID, c.Order.Mode, c.Order.Seed, c.Order.Site)] = true
		prints[o.LogHash+"|"+o.DumpHash+"|"+fmt.Sprint(o.Steps)] = true
		if o.Kind == "timeout" {
			return nil, evals, fmt.Errorf("case %s hit the wall-clock net", o.ID)
		}
		if o.Kind != "module" {
			add(s, c.Order, "outcome-depends-on-map-order:"+o.Kind, fmt.Sprintf("the reference load returned a module, the same text under another map order gave %s %s %s", o.Kind, o.Err, o.PanicAt), o.LogHash)
			continue
		}
		if o.DumpHash != ref.DumpHash {
			mismatches = append(mismatches, mism{s, c, o})
		}
	}
	// explain mismatches: fetch both dumps and name the first accessor that differs
	if len(mismatches) > 0 {
		seenSet := map[string]bool{}
		var again []*load.Case
		var which []mism
		for _, m := range mismatches {
			k := m.s.ID + "|" + m.c.Order.Mode
			if seenSet[k] || len(again) > 40 {
				continue
			}
			seenSet[k] = true
			a := c06Case(m.s, "ref-dump", load.OrderSpec{Mode: "sorted"}, true)
			b := c06Case(m.s, "bad-dump", m.c.Order, true)
			b.ViaString = m.c.ViaString
			again = append(again, a, b)
			which = append(which, m)
		}
		douts, err := load.Supervise(again, workers(), 60*time.Second, nil)
		if err != nil {
			return nil, evals, err
		}
		dby := map[string]*load.Outcome{}
		for i := range douts {
			dby[douts[i].ID] = &douts[i]
		}
		for _, m := range which {
			a, b := dby[m.s.ID+"|ref-dump"], dby[m.s.ID+"|bad-dump"]
			if a == nil || b == nil {
				continue
			}
			acc, la, lb := firstDiff(a.Dump, b.Dump)
			kind := "repeat-load-differs"
			if m.c.Order.Mode == "sorted" {
				kind = "repeat-load-differs-other-process"
			}
			if m.c.ViaString {
				kind = "load-from-string-differs-from-load-by-name"
			}
			add(m.s, m.c.Order, kind+":"+acc, fmt.Sprintf("schema differs from the reference load under map order %+v; first difference at accessor %s: reference %q, this load %q", m.c.Order, acc, la, lb), m.o.LogHash)
		}
	}
	return viols, evals, nil
}

func c06Batch(c *Check, tier string) int {
	start := time.Now()
	seed := kit.Seed()
	fmt.Printf("check C06 tier=%s VERIF_SEED=%d workers=%d\n", tier, seed, workers())
	findings, err := kit.LoadFindings()
	if err != nil {
		fmt.Fprintln(os.Stderr, "harness:", err)
		return 2
	}
	r := kit.NewRng(kit.Mix(seed, "C06", 0))
	nGen, nPerm, perSite := 80, 8, false
	limit := 4 * time.Minute
	thoroughMode = tier == "thorough"
	if tier == "thorough" {
		nGen, nPerm, perSite = 600, 64, true
		limit = 30 * time.Minute
		if s := kit.EnvInt("VERIF_THOROUGH_SECONDS", 0); s > 0 {
			limit = time.Duration(s) * time.Second
		}
	} else {
		perSite = true
	}
	budget := kit.NewBudget(limit)
	var sets []*c06Set
	for i := 0; i < nGen; i++ {
		ms := modset.Generate(r, r.Range(30, 90))
		cs := &c06Set{ID: fmt.Sprintf("gen%d", i), Set: ms, Main: ms.Main, Files: ms.Files}
		if len(ms.Feats) > 0 && r.Chance(1, 3) {
			// a non-default feature configuration: the last feature (the one refines are guarded by) off, or only the first on
			if r.Chance(2, 3) {
				cs.Features = "off:" + ms.Feats[len(ms.Feats)-1]
			} else {
				cs.Features = "on:" + ms.Feats[0]
			}
		}
		sets = append(sets, cs)
	}
	files, byDir := loadCorpus()
	for _, f := range files {
		sets = append(sets, &c06Set{ID: relID(f.dir) + "/" + f.name, Main: f.name, Files: byDir[f.dir]})
	}
	stats := kit.Counter{}
	prints := map[string]bool{}
	sitesSeen := map[int32]int{}
	vectors := map[string]bool{}
	var steps int64
	viols, evals, err := c06Eval(sets, nPerm, perSite, r, budget, stats, prints, &steps, sitesSeen, vectors)
	if err != nil {
		fmt.Fprintln(os.Stderr, "harness:", err)
		return 2
	}
	byKey := map[string]*kit.Violation{}
	count := kit.Counter{}
	var keys []string
	for _, v := range viols {
		count.Inc(v.Key)
		if old, ok := byKey[v.Key]; !ok || len(v.Scenario) < len(old.Scenario) {
			if !ok {
				keys = append(keys, v.Key)
			}
			byKey[v.Key] = v
		}
	}
	sort.Strings(keys)
	exit, nviol := 0, 0
	var knownSeen []string
	for _, k := range keys {
		v := byKey[k]
		v.Seed = seed
		if f := findings.Known("C06", k); f != nil {
			fmt.Printf("KNOWN-FINDING: property=C06 %s [%s] (seen %d times)\n", f.What, k, count[k])
			knownSeen = append(knownSeen, k)
			continue
		}
		nviol++
		path, err := kit.WriteReplay(v)
		if err != nil {
			fmt.Fprintln(os.Stderr, "harness:", err)
			return 2
		}
		fmt.Printf("VIOLATION property=C06 replay=%s\n  key=%s (seen %d times)\n  %s\n", path, k, count[k], v.Detail)
		exit = 1
	}
	wall := time.Since(start).Seconds()
	var sample interface{}
	if len(sets) > 0 && sets[0].Set != nil {
		txt := sets[0].Files["m"]
		if len(txt) > 600 {
			txt = txt[:600] + "…"
		}
		sample = map[string]interface{}{"module_set": sets[0].ID, "files": len(sets[0].Files), "main_head": txt, "expected_root_order": sets[0].Set.Expect[""]}
	}
	findings.PrintUnmet("C06", knownSeen)
	cov := map[string]interface{}{
		"evaluations":           evals,
		"distinct_nontrivial":   len(prints),
		"rule":                  fmt.Sprintf("module sets = %d generated (main + imported modules + submodules; groupings used several times, augments, choices, identity derivations, typedef chains, features, rpc/notification) + every corpus .yang file of the repository; per set: a reference load with every range-over-map site in sorted order (loaded twice in that process), the same load again in another worker process, %d loads with an independent random permutation at every site visit, and one load per visited site with only that site reversed (per-site space enumerated). Oracles: canonical dump (every exported zero-argument accessor, found by reflection) equal to the reference; order of data definitions and cases under every parent equal to the generator's own expansion of its statement list. distinct_nontrivial counts distinct (opener log, dump hash, step count) among non-reference loads", nPerm),
		"samples":               []interface{}{sample},
		"sim_steps":             steps,
		"runs_per_hour":         int(float64(evals) / (wall + 1e-9) * 3600),
		"counters":              stats,
		"range_sites_visited":   len(sitesSeen),
		"order_vectors_applied": len(vectors),
		"known_findings_seen":   knownSeen,
		"components": map[string]string{
			"lexer, grammar, builder, resolver, compiler":                "real (instrumented copy)",
			"map iteration order at every range-over-map / MapKeys site": "simulator-owned",
			"opener": "simulated file system (fault-free here)",
		},
		"not_decided": "clause (a) of the property (every argument under every quoting/escape/comment placement is read back unchanged) is a pure function of the text and is not decided by this check",
	}
	ev := &kit.Evidence{PropertyID: "C06", Tier: tier, Seed: int64(seed), Level: "exploration", Coverage: cov,
		Assumptions: []string{
			"the instrumented copy behaves like /repo (tools/selfcheck.sh)",
			"iterating a sorted-then-permuted snapshot of a map is one of the orders Go's runtime may produce",
			"derived-identity sets are compared as sets; the relative order of a submodule's and the main module's top-level definitions is not prescribed (each file's own order is)",
		}, WallS: wall, Violations: nviol}
	if err := ev.Write(); err != nil {
		fmt.Fprintln(os.Stderr, "harness:", err)
		return 2
	}
	fmt.Printf("C06: loads=%d distinct=%d sites=%d violations=%d known=%d wall=%.1fs\n  counters: %s\n", evals, len(prints), len(sitesSeen), nviol, len(knownSeen), wall, stats.String())
	if len(prints) < 2 {
		return 2
	}
	return exit
}

func c06Replay(raw json.RawMessage) ([]*kit.Violation, error) {
	var sc c06Scenario
	if err := json.Unmarshal(raw, &sc); err != nil {
		return nil, err
	}
	r := kit.NewRng(1)
	stats := kit.Counter{}
	var steps int64
	// reference + exactly the recorded order
	s := &sc.Set
	budget := kit.NewBudget(0)
	viols, _, err := c06Eval([]*c06Set{s}, 0, false, r, budget, stats, map[string]bool{}, &steps, map[int32]int{}, map[string]bool{})
	if err != nil {
		return nil, err
	}
	if sc.Order.Mode != "sorted" {
		ref := c06Case(s, "ref-dump", load.OrderSpec{Mode: "sorted"}, true)
		bad := c06Case(s, "bad-dump", sc.Order, true)
		outs, err := load.Supervise([]*load.Case{ref, bad}, 2, 60*time.Second, nil)
		if err != nil {
			return nil, err
		}
		if len(outs) == 2 && outs[0].Kind == "module" {
			a, b := &outs[0], &outs[1]
			if a.ID != ref.ID {
				a, b = b, a
			}
			if b.Kind != "module" {
				viols = append(viols, &kit.Violation{Property: "C06", Key: "outcome-depends-on-map-order:" + b.Kind, Detail: b.Err + b.PanicAt, LogHash: b.LogHash, Scenario: raw})
			} else if a.DumpHash != b.DumpHash {
				acc, la, lb := firstDiff(a.Dump, b.Dump)
				viols = append(viols, &kit.Violation{Property: "C06", Key: "repeat-load-differs:" + acc, Detail: fmt.Sprintf("first difference at %s: %q vs %q", acc, la, lb), LogHash: b.LogHash, Scenario: raw})
			}
		}
	}
	return viols, nil
}
