//go:build verif

package checks

import (
	"encoding/json"
	"fmt"
	"os"
	"time"

	"verif/sim/kit"
	"verif/sim/load"
)

func init() {
	// verif-inst run-case <replay-or-case.json>: print the outcome of one load case
	Workers["run-case"] = func() {
		b, err := os.ReadFile(os.Args[2])
		if err != nil {
			fmt.Fprintln(os.Stderr, err)
			os.Exit(2)
		}
		var cs load.Case
		if v, err := kit.ReadReplay(os.Args[2]); err == nil && len(v.Scenario) > 0 {
			b = v.Scenario
		}
		if err := json.Unmarshal(b, &cs); err != nil {
			fmt.Fprintln(os.Stderr, err)
			os.Exit(2)
		}
		outs, err := load.Supervise([]*load.Case{&cs}, 1, 60*time.Second, nil)
		if err != nil {
			fmt.Fprintln(os.Stderr, err)
			os.Exit(2)
		}
		o, _ := json.MarshalIndent(outs, "", " ")
		fmt.Println(string(o))
	}
}
