package checks

import (
	"bytes"
	"encoding/json"
	"fmt"
	"io"
	"math/big"
	"sort"
	"strconv"
	"strings"
	"sync"
	"time"

	"github.com/freeconf/yang/node"
	"github.com/freeconf/yang/nodeutil"

	"verif/sim/kit"
	"verif/sim/mnode"
	"verif/sim/model"
	"verif/sim/schema"
	"verif/sim/sess"
	"verif/sim/simio"
	"verif/sim/simnode"
)

// C15 — the JSON writer always emits well-formed, correctly named and typed
// JSON; an output stream error is returned, not lost. The stream behind the
// writer (S3) is simulated and failed at every position; the fault-free
// configuration of the same workload checks the document itself.

type c15Scenario struct {
	Schema  *schema.Node `json:"schema"`
	Tree    *model.Tree  `json:"tree"`
	At      model.Path   `json:"at"`
	Leaf    string       `json:"leaf,omitempty"` // start selection is this leaf below At
	Pretty  bool         `json:"pretty"`
	EnumIds bool         `json:"enum_as_ids"`
	Qualify bool         `json:"qualify_namespace"`
	Insert  bool         `json:"insert"` // InsertInto (what WriteJSON uses) instead of UpsertInto
	FailAt  int          `json:"fail_at"`
	Kind    string       `json:"fault_kind,omitempty"`
}

type c15Exec struct {
	w     *simio.Writer
	err   error
	panic interface{}
	at    string
	log   *kit.Log
}

func c15Run(env *sess.Env, sc *c15Scenario, pretty bool) (ex c15Exec) {
	ex.log = kit.NewLog(60)
	ex.w = &simio.Writer{FailAt: sc.FailAt, Kind: sc.Kind, Log: ex.log}
	defer func() {
		if p := recover(); p != nil {
			ex.panic = p
			ex.at = sess.TopRepoFrame()
		}
	}()
	src := mnode.Tree(sc.Tree.Clone())
	src.ReadOnly = true
	b := node.NewBrowser(env.Mod, src)
	sel, err := sess.FindSel(b.Root(), sc.At)
	if err == nil && sel != nil && sc.Leaf != "" {
		sel, err = sel.Find(sc.Leaf)
	}
	if err != nil || sel == nil {
		ex.err = fmt.Errorf("harness: start selection %s/%s not found: %v", sc.At, sc.Leaf, err)
		ex.at = "harness"
		return
	}
	wtr := &nodeutil.JSONWtr{Out: ex.w, Pretty: pretty, EnumAsIds: sc.EnumIds, QualifyNamespace: sc.Qualify}
	if sc.Insert {
		ex.err = sel.InsertInto(wtr.Node())
	} else {
		ex.err = sel.UpsertInto(wtr.Node())
	}
	return
}

// c15Helpers exercises the helper entry points that wrap the writer
// (WriteJSON, WritePrettyJSON, JSONWtr.JSON): a first call whose SOURCE fails at
// a seeded callback, then a second call on the same data with nothing failing.
// Whatever the failed call left behind, the second must produce exactly the
// document the writer produces for that configuration.
func c15Helpers(env *sess.Env, sc *c15Scenario, r *kit.Rng) (detail string, fired bool) {
	defer func() {
		if p := recover(); p != nil {
			detail = fmt.Sprintf("panic in a helper call: %v at %s", p, sess.TopRepoFrame())
		}
	}()
	which := r.Intn(3)
	call := func(sel *node.Selection) (string, error) {
		switch which {
		case 0:
			return nodeutil.WriteJSON(sel)
		case 1:
			return nodeutil.WritePrettyJSON(sel)
		}
		return nodeutil.JSONWtr{EnumAsIds: sc.EnumIds}.JSON(sel)
	}
	selOf := func(ss *simnode.Session) (*node.Selection, error) {
		var src node.Node = mnode.Tree(sc.Tree.Clone())
		if ss != nil {
			src = ss.Wrap(src, "S", nil, "")
		}
		sel, err := sess.FindSel(node.NewBrowser(env.Mod, src).Root(), sc.At)
		if err == nil && sel != nil && sc.Leaf != "" {
			sel, err = sel.Find(sc.Leaf)
		}
		if err != nil || sel == nil {
			return nil, fmt.Errorf("start selection not found: %v", err)
		}
		return sel, nil
	}
	// what the configuration must produce
	sel, err := selOf(nil)
	if err != nil {
		return "", false
	}
	want, err := call(sel)
	if err != nil {
		return "", false // (a known finding of the fault-free writer; reported elsewhere)
	}
	// a traced run to learn how many source callbacks there are
	log := kit.NewLog(0)
	tr := simnode.NewSession(log, nil)
	if sel, err = selOf(tr); err != nil {
		return "", false
	}
	start := len(tr.Events)
	call(sel)
	n := len(tr.Events) - start
	if n < 2 {
		return "", false
	}
	// the failing call
	fs := simnode.NewSession(kit.NewLog(0), nil)
	if sel, err = selOf(fs); err != nil {
		return "", false
	}
	fs.Faults = []simnode.Fault{{At: len(fs.Events) + 1 + r.Intn(n-1), Kind: simnode.FError}}
	_, ferr := call(sel)
	fired = len(fs.Fired) > 0
	if fired && ferr == nil {
		return fmt.Sprintf("helper %d: a source callback failed (%s) and the helper returned nil", which, fs.Fired[0]), true
	}
	// the next call, nothing failing
	if sel, err = selOf(nil); err != nil {
		return "", fired
	}
	got, err := call(sel)
	if err != nil {
		return fmt.Sprintf("helper %d: the call after a failed call returned %v", which, err), fired
	}
	if got != want {
		return fmt.Sprintf("helper %d: after a call that failed part-way the next call returned %d bytes starting %q, the document is %d bytes starting %q", which, len(got), cut80(got), len(want), cut80(want)), fired
	}
	return "", fired
}

// ---------------------------------------------------------------- ordered JSON

type jval struct {
	kind    byte // o a s n b z(null)
	members []jmember
	items   []*jval
	s       string
}
type jmember struct {
	name string
	v    *jval
}

func jparse(data []byte) (*jval, []string, error) {
	dec := json.NewDecoder(bytes.NewReader(data))
	dec.UseNumber()
	var toks []string
	v, err := jparseVal(dec, &toks)
	if err != nil {
		return nil, nil, err
	}
	if _, err := dec.Token(); err != io.EOF {
		return nil, nil, fmt.Errorf("content after the first JSON value (err=%v)", err)
	}
	return v, toks, nil
}

func jparseVal(dec *json.Decoder, toks *[]string) (*jval, error) {
	t, err := dec.Token()
	if err != nil {
		return nil, err
	}
	switch x := t.(type) {
	case json.Delim:
		*toks = append(*toks, string(x))
		switch x {
		case '{':
			v := &jval{kind: 'o'}
			for dec.More() {
				kt, err := dec.Token()
				if err != nil {
					return nil, err
				}
				ks, ok := kt.(string)
				if !ok {
					return nil, fmt.Errorf("object key is not a string")
				}
				*toks = append(*toks, "k:"+ks)
				mv, err := jparseVal(dec, toks)
				if err != nil {
					return nil, err
				}
				v.members = append(v.members, jmember{ks, mv})
			}
			if _, err := dec.Token(); err != nil {
				return nil, err
			}
			*toks = append(*toks, "}")
			return v, nil
		case '[':
			v := &jval{kind: 'a'}
			for dec.More() {
				iv, err := jparseVal(dec, toks)
				if err != nil {
					return nil, err
				}
				v.items = append(v.items, iv)
			}
			if _, err := dec.Token(); err != nil {
				return nil, err
			}
			*toks = append(*toks, "]")
			return v, nil
		}
		return nil, fmt.Errorf("unexpected delimiter %v", x)
	case string:
		*toks = append(*toks, "s:"+x)
		return &jval{kind: 's', s: x}, nil
	case json.Number:
		*toks = append(*toks, "n:"+x.String())
		return &jval{kind: 'n', s: x.String()}, nil
	case bool:
		*toks = append(*toks, fmt.Sprintf("b:%v", x))
		return &jval{kind: 'b', s: fmt.Sprint(x)}, nil
	case nil:
		*toks = append(*toks, "null")
		return &jval{kind: 'z'}, nil
	}
	return nil, fmt.Errorf("unexpected token %v", t)
}

// ---------------------------------------------------------------- expectation

func modOf(s *schema.Node, main string) string {
	if s.Module == "g" {
		return "g"
	}
	return main
}

func c15Name(s *schema.Node, main string, qualify bool) string {
	if !qualify {
		return s.Name
	}
	dp := s.DataParent()
	top := dp != nil && dp.Kind == schema.Module
	if top || modOf(dp, main) != modOf(s, main) {
		return modOf(s, main) + ":" + s.Name
	}
	return s.Name
}

func numEq(a, b string) bool {
	x, ok1 := new(big.Rat).SetString(a)
	y, ok2 := new(big.Rat).SetString(b)
	return ok1 && ok2 && x.Cmp(y) == 0
}

// c15Scalar checks one rendered scalar against the stored model value.
func c15Scalar(s *schema.Node, stored string, got *jval, sc *c15Scenario, main string) string {
	wantStr := func(w string) string {
		if got.kind != 's' || got.s != w {
			return fmt.Sprintf("expected JSON string %q, found %c %q", w, got.kind, got.s)
		}
		return ""
	}
	switch s.Type {
	case "string", "binary", "bits":
		return wantStr(stored)
	case "decimal64":
		// the library holds a decimal64 as a float64: what must come back is that float64
		a, e1 := strconv.ParseFloat(got.s, 64)
		b, e2 := strconv.ParseFloat(stored, 64)
		if got.kind != 'n' || e1 != nil || e2 != nil || a != b {
			return fmt.Sprintf("expected JSON number %s, found %c %q", stored, got.kind, got.s)
		}
	case "int8", "int16", "int32", "uint8", "uint16", "uint32":
		if got.kind != 'n' || !numEq(got.s, stored) {
			return fmt.Sprintf("expected JSON number %s, found %c %q", stored, got.kind, got.s)
		}
	case "int64", "uint64":
		// RFC 7951 encodes 64-bit integers as strings; the statement only asks
		// that the value decodes to the stored one, so both forms are accepted.
		if !((got.kind == 'n' || got.kind == 's') && numEq(got.s, stored)) {
			return fmt.Sprintf("expected %s as JSON number or string, found %c %q", stored, got.kind, got.s)
		}
	case "boolean":
		if got.kind != 'b' || got.s != stored {
			return fmt.Sprintf("expected JSON %s, found %c %q", stored, got.kind, got.s)
		}
	case "enum":
		if sc.EnumIds {
			id := -1
			for i, e := range s.Enums {
				if e == stored {
					id = i
				}
			}
			if got.kind != 'n' || !numEq(got.s, fmt.Sprint(id)) {
				return fmt.Sprintf("expected enum value %d, found %c %q", id, got.kind, got.s)
			}
			return ""
		}
		return wantStr(stored)
	case "identityref":
		if got.kind != 's' {
			return fmt.Sprintf("expected identity name string, found %c %q", got.kind, got.s)
		}
		name := got.s
		// RFC 7951 6.8: an identity defined in another module than the leaf must
		// carry its module name, otherwise the text does not identify it
		leafMod := modOf(s, main)
		idMod := schema.IdentModule(stored)
		if idMod == "m" {
			idMod = main
		}
		if idMod != leafMod && !strings.Contains(name, ":") {
			return fmt.Sprintf("identity %s is defined in module %q, the leaf in %q: the value must be module-qualified, found %q", stored, idMod, leafMod, got.s)
		}
		if i := strings.Index(name, ":"); i >= 0 {
			pm := name[:i]
			name = name[i+1:]
			im := schema.IdentModule(stored)
			if im == "m" {
				im = main
			}
			if pm != im {
				return fmt.Sprintf("identity %s qualified with module %q, it is defined in %q", stored, pm, im)
			}
		}
		if name != stored {
			return fmt.Sprintf("expected identity %q, found %q", stored, got.s)
		}
	case "union", "unione":
		if !((got.kind == 'n' && numEq(got.s, stored)) || (got.kind == 's' && got.s == stored)) {
			return fmt.Sprintf("expected union value %q, found %c %q", stored, got.kind, got.s)
		}
	case "anydata":
		want := stored
		if strings.HasPrefix(stored, "@sel:") {
			_, t, err := c15AnyTree(stored)
			if err != nil {
				return "harness: " + err.Error()
			}
			want = t.JSON()
		}
		w, _, err := jparse([]byte(want))
		if err != nil {
			return "harness: expected anydata value does not parse: " + err.Error()
		}
		if d := jsame(w, got, ""); d != "" {
			return "anydata value differs from the stored one at " + d
		}
	case "empty":
		if got.kind != 'a' || len(got.items) != 1 || got.items[0].kind != 'z' {
			return fmt.Sprintf("expected [null] for an empty-typed leaf, found kind %c", got.kind)
		}
	default:
		return "harness: unknown type " + s.Type
	}
	return ""
}

// jsame compares two JSON values; object members as sets, numbers by value.
func jsame(a, b *jval, at string) string {
	if a.kind != b.kind {
		return fmt.Sprintf("%s: kind %c vs %c", at, a.kind, b.kind)
	}
	switch a.kind {
	case 'o':
		if len(a.members) != len(b.members) {
			return fmt.Sprintf("%s: %d vs %d members", at, len(a.members), len(b.members))
		}
		for _, m := range a.members {
			var o *jval
			n := 0
			for _, x := range b.members {
				if x.name == m.name {
					o = x.v
					n++
				}
			}
			if n != 1 {
				return fmt.Sprintf("%s: member %q occurs %d times", at, m.name, n)
			}
			if d := jsame(m.v, o, at+"/"+m.name); d != "" {
				return d
			}
		}
	case 'a':
		if len(a.items) != len(b.items) {
			return fmt.Sprintf("%s: %d vs %d items", at, len(a.items), len(b.items))
		}
		for i := range a.items {
			if d := jsame(a.items[i], b.items[i], fmt.Sprintf("%s[%d]", at, i)); d != "" {
				return d
			}
		}
	case 'n':
		if !numEq(a.s, b.s) {
			return fmt.Sprintf("%s: number %s vs %s", at, a.s, b.s)
		}
	default:
		if a.s != b.s {
			return fmt.Sprintf("%s: %q vs %q", at, a.s, b.s)
		}
	}
	return ""
}

// The tree behind an "@sel:<entries>:<string length>" anydata value: a small
// schema of its own, compiled once.
var (
	c15AnyOnce sync.Once
	c15AnyEnv  *sess.Env
	c15AnyErr  error
)

func c15AnyTree(spec string) (*sess.Env, *model.Tree, error) {
	c15AnyOnce.Do(func() {
		leaf := func(n, t string) *schema.Node { return &schema.Node{Kind: schema.Leaf, Name: n, Type: t} }
		m := &schema.Node{Kind: schema.Module, Name: "anyx", Children: []*schema.Node{
			leaf("a", "string"),
			{Kind: schema.Container, Name: "c", Children: []*schema.Node{leaf("b", "int32"), {Kind: schema.LeafList, Name: "ll", Type: "string"}}},
			{Kind: schema.List, Name: "l", Keys: []string{"k"}, Children: []*schema.Node{leaf("k", "string"), leaf("v", "boolean")}},
		}}
		m.Link()
		c15AnyEnv, c15AnyErr = sess.Compile(m)
	})
	if c15AnyErr != nil {
		return nil, nil, c15AnyErr
	}
	var n, sl int
	if _, err := fmt.Sscanf(spec, "@sel:%d:%d", &n, &sl); err != nil {
		return nil, nil, fmt.Errorf("bad anydata selection spec %q", spec)
	}
	s := c15AnyEnv.S
	t := model.New(s)
	t.Leaf["a"] = strings.Repeat("x\"y\\", sl/4+1)[:sl]
	c := model.New(s.Child("c"))
	c.Leaf["b"] = fmt.Sprint(n)
	c.LL["ll"] = []string{"p", "q q"}
	t.Cont["c"] = c
	if n > 0 {
		l := &model.ListT{S: s.Child("l")}
		for i := 0; i < n; i++ {
			e := model.New(s.Child("l"))
			e.Leaf["k"] = fmt.Sprintf("k%d", i)
			e.Leaf["v"] = fmt.Sprint(i%2 == 0)
			l.Entries = append(l.Entries, e)
		}
		t.List["l"] = l
	}
	return c15AnyEnv, t, nil
}

func init() {
	mnode.AnySelection = func(spec string) (interface{}, error) {
		env, t, err := c15AnyTree(spec)
		if err != nil {
			return nil, err
		}
		src := mnode.Tree(t)
		src.ReadOnly = true
		return *node.NewBrowser(env.Mod, src).Root(), nil
	}
}

// c15Object checks the members of a JSON object against a model tree node.
func c15Object(t *model.Tree, got *jval, sc *c15Scenario, main, at string) string {
	if got.kind != 'o' {
		return fmt.Sprintf("%s: expected an object, found %c", at, got.kind)
	}
	seen := map[string]bool{}
	byName := map[string]*jval{}
	for _, m := range got.members {
		if seen[m.name] {
			return fmt.Sprintf("%s: member %q appears twice", at, m.name)
		}
		seen[m.name] = true
		byName[m.name] = m.v
	}
	used := 0
	for _, c := range t.S.DataChildren() {
		name := c15Name(c, main, sc.Qualify)
		g, ok := byName[name]
		p := at + "/" + c.Name
		switch c.Kind {
		case schema.Leaf:
			v, has := t.Leaf[c.Name]
			if has != ok {
				return fmt.Sprintf("%s: leaf present in data=%v, member %q present in JSON=%v", p, has, name, ok)
			}
			if has {
				used++
				if d := c15Scalar(c, v, g, sc, main); d != "" {
					return p + ": " + d
				}
			}
		case schema.LeafList:
			v, has := t.LL[c.Name]
			if has != ok {
				return fmt.Sprintf("%s: leaf-list present in data=%v, member %q present in JSON=%v", p, has, name, ok)
			}
			if has {
				used++
				if g.kind != 'a' || len(g.items) != len(v) {
					return fmt.Sprintf("%s: expected array of %d, found kind %c len %d", p, len(v), g.kind, len(g.items))
				}
				for i := range v {
					if d := c15Scalar(c, v[i], g.items[i], sc, main); d != "" {
						return fmt.Sprintf("%s[%d]: %s", p, i, d)
					}
				}
			}
		case schema.Container:
			v, has := t.Cont[c.Name]
			if has != ok {
				return fmt.Sprintf("%s: container present in data=%v, member %q present in JSON=%v", p, has, name, ok)
			}
			if has {
				used++
				if d := c15Object(v, g, sc, main, p); d != "" {
					return d
				}
			}
		case schema.List:
			v, has := t.List[c.Name]
			if has != ok {
				return fmt.Sprintf("%s: list present in data=%v, member %q present in JSON=%v", p, has, name, ok)
			}
			if has {
				used++
				if d := c15List(v, g, sc, main, p); d != "" {
					return d
				}
			}
		}
	}
	if used != len(got.members) {
		var extra []string
		for _, m := range got.members {
			extra = append(extra, m.name)
		}
		sort.Strings(extra)
		return fmt.Sprintf("%s: object has %d members (%v), the data has %d nodes there", at, len(got.members), extra, used)
	}
	return ""
}

func c15List(l *model.ListT, got *jval, sc *c15Scenario, main, at string) string {
	if got.kind != 'a' {
		return fmt.Sprintf("%s: expected an array, found %c", at, got.kind)
	}
	if len(got.items) != len(l.Entries) {
		return fmt.Sprintf("%s: %d entries in data, %d in JSON", at, len(l.Entries), len(got.items))
	}
	for i, e := range l.Entries {
		if d := c15Object(e, got.items[i], sc, main, fmt.Sprintf("%s[%d]", at, i)); d != "" {
			return d
		}
	}
	return ""
}

// c15Expect checks the whole document for the start selection.
func c15Expect(sc *c15Scenario, doc *jval) string {
	main := sc.Schema.Name
	loc, ok := sc.Tree.Resolve(sc.At)
	if !ok {
		return "harness: start does not resolve in model"
	}
	if sc.Leaf != "" {
		// a leaf as start selection: {"leaf": value}
		c := loc.Tree.S.Child(sc.Leaf)
		t := model.New(loc.Tree.S)
		if c.Kind == schema.LeafList {
			t.LL[c.Name] = loc.Tree.LL[c.Name]
		} else {
			t.Leaf[c.Name] = loc.Tree.Leaf[c.Name]
		}
		return c15Object(t, doc, sc, main, sc.At.String())
	}
	if loc.Tree == nil && loc.List != nil {
		// the list itself: {"name":[...]}
		if doc.kind != 'o' || len(doc.members) != 1 {
			return "list start selection: expected an object with exactly one member"
		}
		want := c15Name(loc.S, main, sc.Qualify)
		if doc.members[0].name != want {
			return fmt.Sprintf("list start selection: member %q, expected %q", doc.members[0].name, want)
		}
		return c15List(loc.List, doc.members[0].v, sc, main, sc.At.String())
	}
	return c15Object(loc.Tree, doc, sc, main, sc.At.String())
}

// ---------------------------------------------------------------- exploration

// c15Deep is a chain of nested containers and lists deeper than any fixed
// indentation table.
func c15Deep(r *kit.Rng) *c15Scenario {
	depth := r.Range(40, 70)
	m := &schema.Node{Kind: schema.Module, Name: "m"}
	t := model.New(m)
	cur, curT := m, t
	for i := 0; i < depth; i++ {
		if i%7 == 3 {
			l := &schema.Node{Kind: schema.List, Name: fmt.Sprintf("l%d", i), Keys: []string{fmt.Sprintf("k%d", i)}}
			k := &schema.Node{Kind: schema.Leaf, Name: fmt.Sprintf("k%d", i), Type: "string"}
			l.Children = append(l.Children, k)
			cur.Children = append(cur.Children, l)
			e := model.New(l)
			e.Leaf[k.Name] = "k"
			curT.List[l.Name] = &model.ListT{S: l, Entries: []*model.Tree{e}}
			cur, curT = l, e
		} else {
			c := &schema.Node{Kind: schema.Container, Name: fmt.Sprintf("d%d", i)}
			cur.Children = append(cur.Children, c)
			ct := model.New(c)
			curT.Cont[c.Name] = ct
			cur, curT = c, ct
		}
	}
	leaf := &schema.Node{Kind: schema.Leaf, Name: "x", Type: "string"}
	cur.Children = append(cur.Children, leaf)
	curT.Leaf["x"] = "deep"
	m.Link()
	return &c15Scenario{Schema: m, Tree: t, FailAt: -1, Pretty: r.Chance(3, 4), EnumIds: r.Chance(1, 2), Qualify: r.Chance(1, 2), Insert: r.Chance(1, 2)}
}

func c15Gen(r *kit.Rng) *c15Scenario {
	if r.Chance(1, 25) {
		return c15Deep(r)
	}
	size := []int{0, 1, 1, 2, 2}[r.Intn(5)] // swarm knob: documents must straddle multiples of the writer's 4096-byte buffer
	s := schema.GenerateRich(r, "m", []int{30, 60, 90}[size]+r.Intn(20), r.Range(2, 6))
	schema.HostileEnums(r, s)
	if r.Chance(1, 2) {
		schema.AddAnydata(r, s)
	}
	o := model.GenOpts{Nasty: true, EmptyLL: true, MaxEntries: []int{2, 10, 25}[size], Density: []int{45, 75, 95}[size], KeyPool: 40}
	// swarm knob: key strings with commas in them, so that different compound keys
	// read alike wherever a key is handled as its parts joined by commas
	o.CommaKeys = r.Chance(1, 4)
	t := model.Random(r, s, o.WithBudget([]int{60, 600, 1500}[size]), 0)
	// the swarm knob must bite: a "large" document that came out small (an absent
	// container near the top prunes everything below it) is drawn again
	for try := 0; try < 12 && size > 0 && len(t.JSON()) < []int{0, 4200, 9000}[size]; try++ {
		t = model.Random(r, s, o.WithBudget([]int{60, 600, 1500}[size]), 0)
	}
	sc := &c15Scenario{Schema: s, Tree: t, FailAt: -1,
		Pretty: r.Chance(1, 2), EnumIds: r.Chance(1, 2), Qualify: r.Chance(1, 2), Insert: r.Chance(1, 2)}
	paths := t.AllPaths()
	if o.CommaKeys {
		// the start selection is found by a path string, which cannot spell such a key
		var plain []model.Path
		for _, p := range paths {
			if !strings.Contains(p.String(), ",") {
				plain = append(plain, p)
			}
		}
		paths = plain
	}
	if len(paths) > 0 && r.Chance([]int{6, 1, 1}[size], 8) {
		sc.At = paths[r.Intn(len(paths))]
		// a start selection held by a case: its schema parent is not its data parent
		var inCase []model.Path
		for _, p := range paths {
			if loc, ok := t.Resolve(p); ok && loc.S != nil && loc.S.Parent != nil && loc.S.Parent.Kind == schema.Case {
				inCase = append(inCase, p)
			}
		}
		if len(inCase) > 0 && r.Chance(1, 3) {
			sc.At = inCase[r.Intn(len(inCase))]
		}
	}
	if loc, ok := t.Resolve(sc.At); ok && loc.Tree != nil && r.Chance(1, 5) {
		var leaves []string
		for _, c := range loc.Tree.S.DataChildren() {
			if (c.Kind == schema.Leaf || c.Kind == schema.LeafList) && loc.Tree.Has(c.Name) {
				leaves = append(leaves, c.Name)
			}
		}
		if len(leaves) > 0 {
			sc.Leaf = leaves[r.Intn(len(leaves))]
		}
	}
	return sc
}

func c15Explore(sc *c15Scenario, seed uint64, everyByte bool) (out RunOut, sample map[string]interface{}) {
	out.Stats = kit.Counter{}
	env, err := sess.Compile(sc.Schema)
	if err != nil {
		out.HarnessErr = err.Error()
		return
	}
	mk := func(ex *c15Exec, oracle, key, detail string, s2 c15Scenario) *kit.Violation {
		return &kit.Violation{Property: "C15", Oracle: oracle, Key: key, Detail: detail, Seed: seed,
			LogHash: ex.log.HashHex(), LogTail: ex.log.Lines, Scenario: sess.MarshalScenario(&s2)}
	}
	base := c15Run(env, sc, sc.Pretty)
	out.Evals++
	if base.at == "harness" {
		out.HarnessErr = base.err.Error()
		return
	}
	out.Stats.Inc("scenarios")
	for _, v := range c15Check(sc, env, &base, seed) {
		out.Violations = append(out.Violations, v)
	}
	if base.panic == nil && base.err == nil && seed%3 == 0 {
		d, fired := c15Helpers(env, sc, kit.NewRng(seed^0x68656c70))
		out.Evals += 3
		if fired {
			out.Stats.Inc("probe:helper called again after a call that failed part-way")
		}
		if d != "" {
			out.Violations = append(out.Violations, mk(&base, "helper", "helper-after-failed-call", d, *sc))
		}
	}
	L := len(base.w.Accepted)
	out.Steps += int64(len(base.w.Calls))
	switch {
	case L <= 4096:
		out.Stats.Inc("size:<=4096 (stream errors surface only in the final flush)")
	case L <= 8192:
		out.Stats.Inc("size:4097-8192")
	default:
		out.Stats.Inc("size:>8192")
	}
	if base.panic != nil || base.err != nil {
		// the fault-free run itself failed (reported above); stream faults on top add nothing
		return
	}
	// fault positions
	pos := map[int]bool{}
	if everyByte {
		for i := 0; i < L; i++ {
			pos[i] = true
		}
	} else {
		off := 0
		for _, n := range base.w.Calls {
			for _, p := range []int{off, off + 1, off + n/2, off + n - 1} {
				if p >= 0 && p < L {
					pos[p] = true
				}
			}
			off += n
		}
		// plus a stride over the whole document; long documents get a wider one
		// (every byte is the thorough tier's business)
		stride := 97
		if L/80 > stride {
			stride = L/80 | 1
		}
		for i := 0; i < L; i += stride {
			pos[i] = true
		}
	}
	var ps []int
	for p := range pos {
		ps = append(ps, p)
	}
	sort.Ints(ps)
	for _, p := range ps {
		for _, kind := range []string{"error", "short"} {
			s2 := *sc
			s2.FailAt = p
			s2.Kind = kind
			ex := c15Run(env, &s2, sc.Pretty)
			out.Evals++
			out.Steps += int64(len(ex.w.Calls))
			if !ex.w.Failed {
				out.HarnessErr = fmt.Sprintf("fault at byte %d of %d did not fire", p, L)
				return
			}
			out.Stats.Inc("fault:" + kind)
			if ex.w.FailedCall < len(base.w.Calls)-1 {
				out.Stats.Inc("probe:mid-edit stream error (not the final flush)")
			} else {
				out.Stats.Inc("probe:stream error in the final flush")
			}
			if ex.w.WritesAfterFail > 0 {
				out.Stats.Inc("probe:write attempted after the failed write")
			}
			out.Prints = append(out.Prints, ex.log.Hash()^uint64(p)*0x9e3779b97f4a7c15)
			if ex.panic != nil {
				out.Violations = append(out.Violations, mk(&ex, "panic", "panic-under-stream-fault:"+ex.at,
					fmt.Sprintf("panic %v at %s with the stream failing at byte %d (%s)", ex.panic, ex.at, p, kind), s2))
				continue
			}
			if ex.err == nil {
				where := "final-flush"
				if ex.w.FailedCall < len(base.w.Calls)-1 {
					where = "mid-edit"
				}
				out.Violations = append(out.Violations, mk(&ex, "stream-error-lost", "stream-error-lost:"+kind+":"+where,
					fmt.Sprintf("the stream failed at byte %d of %d (%s, write call %d of %d) and the writer returned nil", p, L, kind, ex.w.FailedCall+1, len(base.w.Calls)), s2))
			}
			if !bytes.HasPrefix(base.w.Accepted, ex.w.Accepted) {
				out.Violations = append(out.Violations, mk(&ex, "prefix", "faulted-output-not-a-prefix",
					fmt.Sprintf("bytes accepted before the fault at %d are not a prefix of the fault-free output", p), s2))
			}
		}
	}
	doc := string(base.w.Accepted)
	if len(doc) > 300 {
		doc = doc[:300] + "…"
	}
	sample = map[string]interface{}{
		"start": sc.At.String() + "/" + sc.Leaf, "pretty": sc.Pretty, "enum_as_ids": sc.EnumIds, "qualify": sc.Qualify,
		"output_bytes": L, "write_calls": base.w.Calls, "fault_positions": len(ps), "document_head": doc,
	}
	return
}

// c15Check is the fault-free oracle.
func c15Check(sc *c15Scenario, env *sess.Env, base *c15Exec, seed uint64) []*kit.Violation {
	var out []*kit.Violation
	mk := func(oracle, key, detail string) {
		out = append(out, &kit.Violation{Property: "C15", Oracle: oracle, Key: key, Detail: detail, Seed: seed,
			LogHash: base.log.HashHex(), LogTail: base.log.Lines, Scenario: sess.MarshalScenario(sc)})
	}
	if base.panic != nil {
		mk("panic", "panic:"+base.at, fmt.Sprintf("panic %v at %s", base.panic, base.at))
		return out
	}
	if base.err != nil {
		mk("error", "fault-free-write-failed:"+sess.NormPanic(base.err), fmt.Sprintf("writing without any stream fault returned %v", base.err))
		return out
	}
	doc, toks, err := jparse(base.w.Accepted)
	if err != nil {
		head := string(base.w.Accepted)
		if len(head) > 200 {
			head = head[:200]
		}
		mk("well-formed", "not-well-formed", fmt.Sprintf("output is not one well-formed JSON value: %v; output starts %q", err, head))
		return out
	}
	if d := c15Expect(sc, doc); d != "" {
		key := "content-mismatch"
		start := "root"
		if sc.Leaf != "" {
			start = "leaf"
		} else if len(sc.At) > 0 {
			start = "container"
			if loc, ok := sc.Tree.Resolve(sc.At); ok && loc.S.Kind == schema.List {
				start = "list"
				if loc.Tree != nil {
					start = "entry"
				}
			}
		}
		depth := "top"
		if len(sc.At) > 0 {
			depth = "nested"
		}
		defer func() {
			out[len(out)-1].Key += ":start=" + start + "@" + depth
		}()
		// classify by the kind of disagreement for a stable identity
		for _, c := range []string{"expected [null]", "member", "appears twice", "expected JSON string", "expected JSON number", "expected enum", "identity", "expected union", "entries in data", "expected an object", "expected an array", "JSON number or string", "expected JSON "} {
			if strings.Contains(d, c) {
				key += ":" + strings.ReplaceAll(c, " ", "-")
				break
			}
		}
		mk("content", key, d)
	}
	// pretty printing changes whitespace only
	other := c15Run(env, sc, !sc.Pretty)
	if other.panic != nil || other.err != nil {
		mk("pretty", "other-pretty-setting-failed", fmt.Sprintf("writing with Pretty=%v failed: %v %v", !sc.Pretty, other.err, other.panic))
		return out
	}
	_, toks2, err := jparse(other.w.Accepted)
	if err != nil {
		mk("well-formed", "not-well-formed:pretty-variant", fmt.Sprintf("with Pretty=%v the output is not well-formed: %v", !sc.Pretty, err))
		return out
	}
	if strings.Join(toks, "\x00") != strings.Join(toks2, "\x00") {
		mk("pretty", "pretty-changes-tokens", "compact and pretty outputs differ in more than whitespace")
	}
	return out
}

func init() {
	Registry["C15"] = func() *Check {
		c := &Check{
			Property: "C15",
			Level:    "fault_enumeration",
			Rule: "one run = one seeded scenario (two-module schema with every leaf type x tree with hostile strings and numeric extremes x writer configuration x start selection incl. list, list entry and leaf); the fault-free output is parsed with encoding/json (one value, then EOF; duplicate members rejected) and compared member by member with the model tree, and the pretty/compact token streams are compared; then the output stream is failed (error and short write) at every Write-call boundary, first/middle/last byte of each call and every 97th byte (thorough: every byte). " +
				"evaluations counts writer executions; distinct_nontrivial counts distinct (stream-event-log, fault offset) fingerprints among executions in which the stream fault fired",
			Assume: []string{
				"the expectation follows the library's notion of 'defining module' for groupings (the module that contains the statement text), as the repository's own namespace test does",
				"64-bit integers are accepted as JSON number or string",
				"the source node is the harness's model-backed node, so typed values reach the writer without passing through the library's conversion code",
			},
			QuickRuns:    400,
			ThoroughRuns: 1 << 30,
			ThoroughTime: 10 * time.Minute,
			Components: map[string]string{
				"JSONWtr, editor, Selection (nodeutil/json_wtr*.go, node/edit.go)": "real",
				"parser/compiler for the generated two-module schema":              "real",
				"source tree node (mnode)":                                         "harness",
				"output stream (simio.Writer)":                                     "simulated",
			},
		}
		c.Run = func(i int, seed uint64, tier string) RunOut {
			r := kit.NewRng(seed)
			sc := c15Gen(r)
			out, sample := c15Explore(sc, seed, tier == "thorough" && r.Chance(1, 3))
			if i < 3 {
				out.Sample = sample
			}
			return out
		}
		c.Replay = func(raw json.RawMessage) ([]*kit.Violation, error) {
			var sc c15Scenario
			if err := json.Unmarshal(raw, &sc); err != nil {
				return nil, err
			}
			sc.Schema.Link()
			sc.Tree.Bind(sc.Schema)
			env, err := sess.Compile(sc.Schema)
			if err != nil {
				return nil, err
			}
			if sc.FailAt < 0 {
				base := c15Run(env, &sc, sc.Pretty)
				return c15Check(&sc, env, &base, 0), nil
			}
			// a single faulted execution: re-derive through the explorer restricted to that position
			s0 := sc
			s0.FailAt, s0.Kind = -1, ""
			out, _ := c15Explore(&s0, 0, true)
			var vs []*kit.Violation
			for _, v := range out.Violations {
				var x c15Scenario
				json.Unmarshal(v.Scenario, &x)
				if x.FailAt == sc.FailAt && x.Kind == sc.Kind {
					vs = append(vs, v)
				}
			}
			return vs, nil
		}
		return c
	}
}

func cut80(s string) string {
	if len(s) > 80 {
		return s[:80] + "…"
	}
	return s
}
