package checks

import (
	"verif/sim/kit"
	"verif/sim/model"
	"verif/sim/schema"
	"verif/sim/sess"
	"verif/sim/store"
)

// C03 — upsert, insert and update are keyed deep merges with defined failure
// cases. Fault-free histories only: the statement has no fault dimension; what
// simulation adds is the operation sequence against a live store (latent
// per-instance state in the node implementations) checked after every step.

var c03Stores = []string{"nstruct0", "nacc", "rmap", "nmap", "nstruct", "rstruct", "ctl", "rmap", "nstruct", "rstruct"}

func c03Gen(r *kit.Rng) *histScenario {
	sk := store.Variant(r, c03Stores[r.Intn(len(c03Stores))])
	st, _ := store.New(sk)
	caps := st.Caps()
	onlyUpserts := r.Chance(1, 3)
	if !onlyUpserts {
		caps.Choices = false
	}
	caps.MaxNodes = r.Range(8, 25)
	s := schema.Generate(r, caps, "m", false, true)
	o := st.GenOpts()
	o.Density = r.Pick3(35, 55, 80)
	init := model.Random(r, s, o.WithBudget(40), 0)
	g := &opGen{r: r, o: o, srcs: []string{"json", "xml", "mnode"}}
	if onlyUpserts {
		g.kinds = []string{"upsert"}
	} else {
		g.kinds = []string{"upsert", "upsert", "insert", "insert", "update", "update"}
	}
	sc := &histScenario{Schema: s, Store: sk, Init: init}
	cur := init.Clone()
	n := r.Range(1, 12)
	for i := 0; i < n; i++ {
		op := g.next(cur)
		into := r.Chance(1, 5)
		if into {
			// the source browser stands on the whole tree: a model-backed node, or an XML or
			// JSON document in which the starting selection is found by path
			op.SrcKind = r.Pick([]string{"mnode", "xml", "json"})
		}
		sc.Ops = append(sc.Ops, op)
		sc.Into = append(sc.Into, into)
		// advance the generator's view of the state by the statement's prediction
		next := cur.Clone()
		if out, ok := sess.ApplyModel(next, op); ok && out.Err == model.OK {
			cur = next
		}
	}
	return sc
}

func init() {
	cfg := histCfg{prop: "C03", checkMerge: true}
	Registry["C03"] = func() *Check {
		return histCheck("C03", cfg, c03Gen, 0,
			"one run = one seeded history: store kind (map- and struct-backed nodeutil.Reflect / nodeutil.Node, control) x generated schema (containers, lists with single/compound/int keys, nested lists, leaf-lists, defaults; choices only in upsert-only histories) x initial tree x 1-12 operations from {upsert, insert, update} x {From, Into} x entry point {root, container, list, list entry} x source {JSON reader, XML reader, model-backed node}, payloads drawn to overlap the current state (disjoint, mutated copy, mixed, pruned-to-absent). After every operation the reference model (the property statement: keyed deep merge, defaults in created nodes, insert->conflict, update->not-found) predicts tree or error class; the store's Go value walked directly and the tree exported through the library must both equal the model; on a predicted failure only the complement of the footprint is compared. distinct_nontrivial counts distinct event-log fingerprints among histories in which at least one operation changed the store",
			[]string{
				"the model implements the property statement; where the statement leaves the outcome open (insert over an empty-but-present list/container, read order of map-backed lists, partial writes of a failed edit) every outcome is accepted and the model re-synchronised",
				"struct-backed stores cannot tell zero from unset: generated values avoid zero values for them",
				"no fault dimension: this is seeded, replayable, minimised exploration of histories, the thinnest fit among the claimed properties",
			}, 8000)
	}
}
