#!/usr/bin/env python3
import json, glob, sys
import jsonschema
ok = True
jsonschema.validate(json.load(open('/verif/MANIFEST.json')), json.load(open('/root/.vp/MANIFEST.schema.json')))
es = json.load(open('/root/.vp/EVIDENCE.schema.json'))
for f in sorted(glob.glob('/verif/evidence/*.json')):
    try:
        jsonschema.validate(json.load(open(f)), es)
        print("valid", f)
    except Exception as e:
        ok = False
        print("INVALID", f, str(e)[:300])
print("manifest valid")
sys.exit(0 if ok else 1)
