#!/usr/bin/env python3
"""Writes /verif/MANIFEST.json from the table below (kept in one place so the
manifest, DESIGN.md and the checks do not drift)."""
import json, os, sys
ROOT = os.path.dirname(os.path.dirname(os.path.abspath(__file__)))

NA = {
 "C01": "Pure function of the module texts and feature set: nothing in schema expansion can be reordered, delayed, failed or interleaved (map order, the one nondeterministic input, is taken up under C06), so simulation would be input generation under another name.",
 "C02": "Pure function of the type statements and typedefs in scope; no schedule, clock, stream or callback takes part in type compilation.",
 "C04": "Pure function of (schema, tree, writer options); the output stream's failure behaviour is C15's and input chunking is absorbed by encoding/json before the library sees a byte.",
 "C05": "Acceptance is a pure predicate of (restriction chain, value) evaluated inside one synchronous call; no fault, schedule or history is involved.",
 "C07": "Pure function of (tree, target, parameter string); constraints are rebuilt per request and evaluated synchronously, nothing to schedule or fail.",
 "C08": "Pure function of (tree, start selection, path string); no stream, callback failure, clock or concurrency in the statement.",
 "C10": "Pure function of (format, Go value); boundary enumeration is the right tool and is not simulation.",
 "C11": "Pure function of (expression, enabled set) and (deviation, target); a finitely enumerable space is model checking by enumeration, not seeded search over schedules or faults.",
 "C16": "Truth of a comparison and visibility under it are pure functions of (expression, data); the notification filter runs synchronously on the sender's stack, so there is no delivery, ordering or timing to vary.",
 "C17": "Algebraic laws over value pairs/triples and a lookup that is a pure function of list content and key; enumeration decides it, simulation adds nothing.",
 "C19": "Pure round-trip function of (schema, tree); sibling interleaving on input is an input ordering, not a schedule, and the writers' streams are only sinks here.",
}

CHECKS = {}
def check(pid, cat, text, note, technique, design_ref, engine):
    CHECKS[pid] = {
        "property_id": pid,
        "quick_cmd": "./check.sh %s quick" % pid,
        "thorough_cmd": "./check.sh %s thorough" % pid,
        "evidence_file": "/verif/evidence/%s.json" % pid,
        "replay_cmd_template": "./check.sh replay {path}",
        "engine": engine,
        "level_claimed": {"category": cat, "text": text, "design_ref": design_ref},
        "level_note": note,
        "technique": technique,
    }

exec(open(os.path.join(ROOT, "tools", "manifest_checks.py")).read())

pending = {}
exec(open(os.path.join(ROOT, "tools", "manifest_pending.py")).read())

na = []
for pid in sorted(set(NA) | set(pending)):
    if pid in CHECKS:
        continue
    na.append({"property_id": pid, "reason": NA.get(pid) or pending[pid]})

m = {
 "version": 1,
 "setup_cmd": "./setup.sh",
 "hooks": {
  "guard": "verif",
  "enable": "no hook is committed to /repo: checks that need instrumentation copy /repo's working tree to /verif/.cache/inst/src at check time and rewrite the copy (range-over-map -> simulator-owned order, a yield before every statement, generated package-globals enumerator; generated files carry the build tag 'verif'); plain-build checks compile /repo as is through a module replace",
  "baseline_off_cmd": "cd /repo && GOFLAGS=-mod=mod GOPROXY=off GOSUMDB=off go test -vet=off -count=1 ./...",
  "source_commits": [],
  "add_only": True,
 },
 "engines": [
  {"name": "E1 session simulator", "path": "/verif/sim/sess", "serves_properties": ["C03", "C09", "C12", "C13", "C15", "C18"], "kind_free_text": "single simulated management session over real node implementations; node/reader/writer seams under seeded fault injection; reference model as oracle"},
  {"name": "E2 load simulator", "path": "/verif/sim/load", "serves_properties": ["C06", "C14"], "kind_free_text": "real lexer/parser/resolver/compiler over a simulated file system in an instrumented copy (map order and step budget owned by the simulator), supervised worker processes"},
  {"name": "E3 concurrent simulator", "path": "/verif/sim/sched", "serves_properties": ["C20"], "kind_free_text": "seeded statement-granular serialising scheduler over K client goroutines in an instrumented -race build; hand-off invisible to the race detector"},
 ],
 "checks": [CHECKS[k] for k in sorted(CHECKS)],
 "not_applicable": na,
 "notes": "Technique: deterministic simulation with fault injection. freeconf/yang is a sequential library without clocks, network or durable state; the simulator owns the seams it does have (node callbacks, reader/writer streams, the source opener, Go map order, caller goroutine scheduling). Properties that are pure functions of their input are listed under not_applicable with the reason. Exit codes: 0 held, 1 violation (VIOLATION line with replay file), 2 harness/build trouble. Known findings: /verif/known_findings.json.",
}
json.dump(m, open(os.path.join(ROOT, "MANIFEST.json"), "w"), indent=1)
print("wrote MANIFEST.json: %d checks, %d not_applicable" % (len(m["checks"]), len(na)))
