pending = {
}
