pending = {
 "C03": "claimed in DESIGN.md; the check is not built yet in this commit",
 "C09": "claimed in DESIGN.md; the check is not built yet in this commit",
 "C13": "claimed (part) in DESIGN.md; the check is not built yet in this commit",
 "C18": "claimed in DESIGN.md; the check is not built yet in this commit",
 "C20": "claimed in DESIGN.md; the check is not built yet in this commit",
}
