pending = {
 "C13": "claimed (part) in DESIGN.md; the check is not built yet in this commit",
}
