#!/bin/bash
# Runs every claimed check's thorough tier in turn (time-capped per check) with the given seed.
cd "$(dirname "$0")/.." || exit 2
seed=${1:-1}; secs=${2:-600}; mkdir -p .cache
for p in C12 C15 C03 C09 C18 C13 C14 C06 C20; do
  echo "=== $p thorough seed=$seed"
  VERIF_SEED=$seed VERIF_THOROUGH_SECONDS=$secs ./check.sh $p thorough > .cache/thorough-$p.log 2>&1
  echo "exit=$?"
  grep -a "VIOLATION\|KNOWN\|key=\|^C[0-9][0-9]:\|harness\|^fatal\|^panic" .cache/thorough-$p.log | cut -c1-700 | head -40
done
