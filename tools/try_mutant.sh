#!/bin/bash
# try_mutant.sh <diff> <prop> [tier]: apply a seeded change to /repo, run the
# property's check, undo the change. Prints the check's exit code and the
# violation keys it reported.
diff=$1; prop=$2; tier=${3:-quick}
cd "$(dirname "$0")/.." || exit 2
if [ -n "$(git -C /repo status --porcelain)" ]; then echo "repo not clean"; exit 2; fi
git -C /repo apply "$diff" || { echo "cannot apply $diff"; exit 2; }
# the run rewrites evidence/<prop>.json from a tree that is not /repo's: put the real one back afterwards
ev=evidence/$prop.json; evsave=$(mktemp); cp $ev $evsave 2>/dev/null
trap 'git -C /repo checkout -- . ; git -C /repo clean -fdq; cp $evsave $ev 2>/dev/null; rm -f $evsave' EXIT
out=$(mktemp)
./check.sh $prop $tier > $out 2>&1
rc=$?
echo "exit=$rc $(grep -a -c '^VIOLATION' $out) violations: $(grep -a 'key=' $out | sed 's/ (seen.*//; s/^ *key=//' | tr '\n' ';' | cut -c1-600)"
grep -a "harness" $out | head -3
rm -f $out
