#!/bin/bash
# Determinism self-test: every check is executed several times with the same
# VERIF_SEED in separate processes, at different worker counts and GOMAXPROCS,
# and the batch fingerprints (hash over every execution's event-log hash) must
# be identical. A mismatch means a forgotten source of nondeterminism: exit 2.
#   tools/selftest.sh [props...]      (default: all claimed)
cd "$(dirname "$0")/.." || exit 2
props=${@:-C03 C06 C09 C12 C13 C14 C15 C18 C20}
mkdir -p .cache/selftest/out
export VERIF_OUT="$(pwd)/.cache/selftest/out"   # the real evidence/ is left alone
fail=0
for p in $props; do
  ref=""
  for cfg in "16 16" "1 1" "4 16" "16 4"; do
    set -- $cfg
    for seed in 1 77; do
      out=.cache/selftest/$p-$1-$2-$seed.log
      runs=${VERIF_SELFTEST_RUNS:-120}
      # (C20 with one worker must fit into the quick tier's time budget, or the batch is cut short and its fingerprint differs for that reason alone)
      [ $p = C20 ] && runs=${VERIF_SELFTEST_RUNS:-40}
      VERIF_SEED=$seed VERIF_WORKERS=$1 GOMAXPROCS=$2 VERIF_QUICK_RUNS=$runs ./check.sh $p quick > $out 2>&1
      rc=$?
      fp=$(python3 -c "import json;print(json.load(open('.cache/selftest/out/evidence/$p.json'))['coverage'].get('batch_fingerprint'))")
      key="$p seed=$seed"
      eval "prev=\${fp_${p}_${seed}:-}"
      if [ -z "$prev" ]; then
        eval "fp_${p}_${seed}=$fp"
      elif [ "$prev" != "$fp" ]; then
        echo "selftest: $p seed=$seed workers=$1 GOMAXPROCS=$2 fingerprint $fp differs from $prev"
        fail=1
      fi
      if [ $rc -ne 0 ]; then echo "selftest: $p seed=$seed workers=$1 GOMAXPROCS=$2 exited $rc"; fail=1; fi
    done
  done
  echo "selftest: $p done"
done
# the harness must not range over sync.Map, read the clock for decisions, or use math/rand
# (sim/deep names sync.Map only to hash the CONTENT of one it finds in the library's state)
if grep -rn "sync\.Map\|math/rand\|rand\.Seed" --include=*.go sim checks cmd rt | grep -v "_test.go" | grep -v '"sync.Map"' | grep -v "^sim/deep/deep.go"; then
  echo "selftest: forbidden nondeterminism source in harness"; fail=1
fi
[ $fail -eq 0 ] && echo "selftest ok" || { echo "selftest FAILED"; exit 2; }
