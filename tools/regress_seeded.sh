#!/bin/bash
# regress_seeded.sh [pattern]: runs every seeded change under /verif/seeded (matching pattern)
# against its property's quick check and prints one line each. Uses /repo itself
# (apply, check, undo): do not edit /repo or run checks while it runs.
cd "$(dirname "$0")/.." || exit 2
pat=${1:-.}
for d in seeded/*/; do
  id=$(basename $d)
  echo "$id" | grep -q "$pat" || continue
  prop=${id%%-*}
  r=$(tools/try_mutant.sh /verif/$d/patch.diff $prop 2>&1 | grep -a "^exit=\|cannot apply" | cut -c1-160)
  echo "$id $r"
done
