#!/bin/bash
# regress_par.sh <jobs> [pattern]: every seeded change matching pattern against its
# property's quick check, on scratch worktrees, <jobs> at a time.
cd "$(dirname "$0")/.." || exit 2
jobs=${1:-4}; pat=${2:-.}
ls seeded | grep "$pat" | xargs -P $jobs -I{} bash -c 'id={}; prop=${id%%-*}; r=$(tools/try_mutant_wt.sh /verif/seeded/$id/patch.diff $prop 2>&1 | grep -a "^exit=\|cannot apply" | cut -c1-200); echo "$id $r"'
