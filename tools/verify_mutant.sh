#!/bin/bash
# verify_mutant.sh <diff> <demo_test.go> <pkgdir>: in a scratch worktree of /repo,
# confirm that (1) the diff applies and the stock suite passes with it,
# (2) the demo fails with it, (3) the demo passes without it.
# Prints one line: OK/FAIL and the three sub-results.
diff=$1; demo=$2; pkg=$3; extra=$4
export GOFLAGS=-mod=mod GOPROXY=off GOSUMDB=off GOTOOLCHAIN=local
wt=$(mktemp -d /tmp/vm-XXXXXX)
git -C /repo worktree add -q --detach "$wt" HEAD || exit 2
trap 'git -C /repo worktree remove --force "$wt" >/dev/null 2>&1' EXIT
cd "$wt" || exit 2
r_apply=no; r_suite=no; r_demo_fail=no; r_demo_pass=no
# demo passes on the clean tree
cp "$demo" "$pkg/zz_demo_test.go"
if timeout 300 go test $extra -vet=off -count=1 -run 'Demo|ZZ|Mutant|Seeded' ./$pkg/ > /tmp/vm-clean.$$ 2>&1; then r_demo_pass=yes; fi
rm -f "$pkg/zz_demo_test.go"
if git apply "$diff" 2>/dev/null; then
  r_apply=yes
  if go build ./... 2>/dev/null && timeout 900 go test -vet=off -count=1 ./... > /tmp/vm-suite.$$ 2>&1; then r_suite=yes; fi
  cp "$demo" "$pkg/zz_demo_test.go"
  if ! timeout 300 go test $extra -vet=off -count=1 -run 'Demo|ZZ|Mutant|Seeded' ./$pkg/ > /tmp/vm-mut.$$ 2>&1; then r_demo_fail=yes; fi
fi
res=FAIL
[ $r_apply = yes ] && [ $r_suite = yes ] && [ $r_demo_fail = yes ] && [ $r_demo_pass = yes ] && res=OK
echo "$res apply=$r_apply suite_passes=$r_suite demo_fails_with_change=$r_demo_fail demo_passes_without=$r_demo_pass $diff"
rm -f /tmp/vm-clean.$$ /tmp/vm-suite.$$ /tmp/vm-mut.$$
