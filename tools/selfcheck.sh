#!/bin/bash
# Standing check of the instrumentation's trusted base: the repository's own
# test suite must pass on the instrumented scratch copy with map order forced
# to sorted and to reversed. A failure is harness trouble (exit 2).
cd "$(dirname "$0")/.." || exit 2
export GOFLAGS=-mod=mod GOPROXY=off GOSUMDB=off GOTOOLCHAIN=local
tools/simbuild.sh || exit 2
for order in sorted reversed; do
  if ! (cd .cache/inst/src && VERIF_MAPORDER=$order go test -tags verif -vet=off -count=1 ./... > ../selfcheck-$order.log 2>&1); then
    echo "harness: repo test suite fails on the instrumented copy with map order $order" >&2
    grep -v "^ok\|no test files" .cache/inst/selfcheck-$order.log | head -40 >&2
    exit 2
  fi
done
echo "selfcheck ok: repo suite passes on the instrumented copy (sorted and reversed map order)"
