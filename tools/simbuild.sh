#!/bin/bash
# simbuild: (re)creates the instrumented scratch copy of /repo's current
# working tree under .cache/inst/src and builds the harness against it.
#   tools/simbuild.sh [race]
# exit 2 on any trouble (never a violation).
cd "$(dirname "$0")/.." || exit 2
export GOFLAGS=-mod=mod GOPROXY=off GOSUMDB=off GOTOOLCHAIN=local
REPO=${VERIF_REPO:-/repo}
mkdir -p .cache/bin .cache/inst
exec 9> .cache/inst/lock
flock 9
h=$( (cd "$REPO" && { git ls-files -co --exclude-standard 2>/dev/null || find . -type f; } | grep -E '\.(go|y|in|yang|mod|sum)$' | LC_ALL=C sort | xargs -d '\n' sha1sum 2>/dev/null; cd - >/dev/null; sha1sum cmd/verif-instrument/main.go rt/zzverifrt.go) | sha1sum | cut -d' ' -f1)
if [ "$(cat .cache/inst/HASH 2>/dev/null)" != "$h" ] || [ ! -d .cache/inst/src ]; then
  rm -rf .cache/inst/src .cache/inst/HASH
  mkdir -p .cache/inst/src
  rsync -a --exclude .git "$REPO"/ .cache/inst/src/ || exit 2
  mkdir -p .cache/inst/src/zzverifrt && cp rt/zzverifrt.go .cache/inst/src/zzverifrt/ || exit 2
  go build -o .cache/bin/verif-instrument ./cmd/verif-instrument || { echo "harness: cannot build instrumenter" >&2; exit 2; }
  .cache/bin/verif-instrument "$(pwd)/.cache/inst/src" meta parser node nodeutil val source xpath fc > .cache/inst/instrument.log 2>&1 || { cat .cache/inst/instrument.log >&2; echo "harness: instrumentation failed" >&2; exit 2; }
  echo "$h" > .cache/inst/HASH
fi
cp -f go.sum go.inst.sum 2>/dev/null
if [ "$1" = "race" ]; then
  go build -race -modfile=go.inst.mod -tags verif -o .cache/bin/verif-inst-race ./cmd/verif 2> .cache/build-inst.err || { cat .cache/build-inst.err >&2; echo "harness: instrumented -race build failed" >&2; exit 2; }
else
  go build -modfile=go.inst.mod -tags verif -o .cache/bin/verif-inst ./cmd/verif 2> .cache/build-inst.err || { cat .cache/build-inst.err >&2; echo "harness: instrumented build failed" >&2; exit 2; }
fi
exit 0
