#!/bin/bash
# simbuild: (re)creates the instrumented scratch copy of /repo's current
# working tree under .cache/inst/src and builds the harness against it.
#   tools/simbuild.sh [race]
# exit 2 on any trouble (never a violation).
cd "$(dirname "$0")/.." || exit 2
export GOFLAGS=-mod=mod GOPROXY=off GOSUMDB=off GOTOOLCHAIN=local
REPO=${VERIF_REPO:-/repo}
CACHE=${VERIF_CACHE:-$(pwd)/.cache}
mkdir -p "$CACHE/bin" "$CACHE/inst"
exec 9> "$CACHE/inst/lock"
flock 9
h=$( (cd "$REPO" && { git ls-files -co --exclude-standard 2>/dev/null || find . -type f; } | grep -E '\.(go|y|in|yang|mod|sum)$' | LC_ALL=C sort | xargs -d '\n' sha1sum 2>/dev/null; cd - >/dev/null; sha1sum cmd/verif-instrument/main.go rt/zzverifrt.go) | sha1sum | cut -d' ' -f1)
if [ "$(cat "$CACHE/inst/HASH" 2>/dev/null)" != "$h" ] || [ ! -d "$CACHE/inst/src" ]; then
  rm -rf "$CACHE/inst/src" "$CACHE/inst/HASH"
  mkdir -p "$CACHE/inst/src"
  rsync -a --exclude .git "$REPO"/ "$CACHE/inst/src/" || exit 2
  mkdir -p "$CACHE/inst/src/zzverifrt" && cp rt/zzverifrt.go "$CACHE/inst/src/zzverifrt/" || exit 2
  go build -o "$CACHE/bin/verif-instrument" ./cmd/verif-instrument || { echo "harness: cannot build instrumenter" >&2; exit 2; }
  "$CACHE/bin/verif-instrument" "$CACHE/inst/src" meta parser node nodeutil val source xpath fc > "$CACHE/inst/instrument.log" 2>&1 || { cat "$CACHE/inst/instrument.log" >&2; echo "harness: instrumentation failed" >&2; exit 2; }
  echo "$h" > "$CACHE/inst/HASH"
fi
# the module file of the instrumented build names the scratch copy by absolute path
sed "s#=> ./.cache/inst/src#=> $CACHE/inst/src#" go.inst.mod > "$CACHE/go.inst.mod"
cp -f go.sum "$CACHE/go.inst.sum" 2>/dev/null
if [ "$1" = "race" ]; then
  go build -race -modfile="$CACHE/go.inst.mod" -tags verif -o "$CACHE/bin/verif-inst-race" ./cmd/verif 2> "$CACHE/build-inst.err" || { cat "$CACHE/build-inst.err" >&2; echo "harness: instrumented -race build failed" >&2; exit 2; }
else
  go build -modfile="$CACHE/go.inst.mod" -tags verif -o "$CACHE/bin/verif-inst" ./cmd/verif 2> "$CACHE/build-inst.err" || { cat "$CACHE/build-inst.err" >&2; echo "harness: instrumented build failed" >&2; exit 2; }
fi
exit 0
