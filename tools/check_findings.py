#!/usr/bin/env python3
"""Verifies that every 'fixed' entry of known_findings.json names a commit that exists in /repo and starts with 'fix:'."""
import json, subprocess, sys
f = json.load(open('/verif/known_findings.json'))
log = dict(l.split(' ', 1) for l in subprocess.check_output(['git', '-C', '/repo', 'log', '--format=%h %s']).decode().splitlines())
bad = 0
used = set()
for e in f:
    if e['status'] == 'fixed':
        if e['commit'] not in log or not log[e['commit']].startswith('fix:'):
            print("STALE", e['commit'], e['property'], e['what'][:70]); bad += 1
        used.add(e['commit'])
for h, s in log.items():
    if s.startswith('fix:') and h not in used:
        print("UNLISTED fix commit", h, s)
print("fixed entries:", sum(1 for e in f if e['status']=='fixed'), "known:", sum(1 for e in f if e['status']=='known'))
sys.exit(1 if bad else 0)
