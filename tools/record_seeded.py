#!/usr/bin/env python3
"""record_seeded.py <wave> <prop> <i> <pkgdir> [extra go test flags]: copies a verified seeded change from
/tmp/out-<prop>/ (wave 1) or /tmp/out<wave>-<prop>/ into /verif/seeded/<prop>-w<wave>-m<i>/, runs the property's quick check against it
(applied to /repo and undone straight afterwards) and writes meta.json."""
import json, os, shutil, subprocess, sys
wave, prop, i, pkg = sys.argv[1:5]
extra = " ".join(sys.argv[5:])
src = "/tmp/out%s-%s" % ("" if wave == "1" else wave, prop)
dst = "/verif/seeded/%s-w%s-m%s" % (prop, wave, i)
os.makedirs(dst, exist_ok=True)
shutil.copy("%s/mutant%s.diff" % (src, i), dst + "/patch.diff")
shutil.copy("%s/mutant%s_demo_test.go" % (src, i), dst + "/demo_test.go.txt")
shutil.copy("%s/mutant%s.md" % (src, i), dst + "/notes.md")
out = subprocess.run(["/verif/tools/try_mutant_wt.sh", dst + "/patch.diff", prop], capture_output=True, text=True).stdout.strip()
rc = out.split()[0] if out else "?"
keys = out.split("violations:", 1)[1].strip().rstrip(";").split(";") if "violations:" in out else []
first = open(dst + "/notes.md").read().strip().splitlines()
meta = {
 "id": os.path.basename(dst),
 "property": prop,
 "origin": "independent sub-agent given only the property text and a scratch worktree (wave %s)" % wave,
 "summary": first[0].lstrip("# ").strip() if first else "",
 "needs_to_manifest": "see notes.md",
 "demo": "demo_test.go.txt -> copy to %s/zz_demo_test.go; go test %s -vet=off -count=1 -run 'Demo|ZZ|Mutant' ./%s/ fails with patch.diff applied and passes without" % (pkg, extra, pkg),
 "confirmed": "tools/verify_mutant.sh in a scratch worktree: patch applies to /repo HEAD, stock suite passes with it, demo fails with it and passes without it",
 "check_result": {"command": "./check.sh %s quick (patch applied to /repo, then git checkout -- .)" % prop, "exit": rc, "violation_keys": [k for k in keys if k]},
}
json.dump(meta, open(dst + "/meta.json", "w"), indent=1)
print(meta["id"], rc, len(meta["check_result"]["violation_keys"]), "keys")
