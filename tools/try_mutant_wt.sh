#!/bin/bash
# try_mutant_wt.sh <diff> <prop> [tier]: like try_mutant.sh but on a scratch
# worktree of /repo's HEAD with its own build cache and output directory, so
# that several trials can run at once and /repo, .cache and evidence/ are left
# alone. Prints the check's exit code and the violation keys.
diff=$1; prop=$2; tier=${3:-quick}
cd "$(dirname "$0")/.." || exit 2
wt=$(mktemp -d /tmp/tmw-XXXXXX)
git -C /repo worktree add -q --detach "$wt/repo" HEAD || exit 2
trap 'git -C /repo worktree remove --force "$wt/repo" >/dev/null 2>&1; rm -rf "$wt"' EXIT
if [ "$diff" != "none" ]; then
  git -C "$wt/repo" apply "$diff" || { echo "cannot apply $diff"; exit 2; }
fi
out=$wt/out.log
VERIF_REPO=$wt/repo VERIF_CACHE=$wt/cache VERIF_OUT=$wt/out ./check.sh $prop $tier > $out 2>&1
rc=$?
echo "exit=$rc $(grep -a -c '^VIOLATION' $out) violations: $(grep -a 'key=' $out | sed 's/ (seen.*//; s/^ *key=//' | tr '\n' ';' | cut -c1-600)"
grep -a "harness" $out | head -3
if [ -n "$KEEP_LOG" ]; then cp $out "$KEEP_LOG"; fi
