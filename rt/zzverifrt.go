// Package zzverifrt is the run-time side of the instrumentation that
// verif-instrument applies to a scratch copy of freeconf/yang (never to /repo).
// It is copied into the scratch module as github.com/freeconf/yang/zzverifrt.
//
// It owns two seams:
//   - statement yields: Yield(site) is called before every statement of the
//     instrumented library. It counts steps (deterministic non-termination
//     detection by budget) and, when a scheduler is active, hands control
//     between client goroutines so that exactly one runs at a time and the
//     interleaving is a pure function of the scheduler's choices;
//   - map order: every range over a map iterates a snapshot in an order this
//     package decides (sorted by key, then permuted by the installed hook).
//
// The hand-off is done with plain loads and stores inside //go:norace
// functions: the race detector does not see it, so it keeps the program's real
// happens-before relation (clients are unsynchronised apart from creation and
// join). No maps, channels, mutexes, atomics or appends in norace code.
package zzverifrt

import (
	"fmt"
	"os"
	"reflect"
	"runtime"
	"sort"
	"time"
)

func init() {
	// used by the instrumentation self-check (repo test suite on the scratch copy)
	if os.Getenv("VERIF_MAPORDER") == "reversed" {
		OrderHook = func(site int32, n int) []int {
			p := make([]int, n)
			for i := range p {
				p[i] = n - 1 - i
			}
			return p
		}
	}
}

// ---------------------------------------------------------------- steps and scheduling

var (
	active   bool  // a scheduler is installed
	turn     int32 = -1
	quantum  int64
	lastSite int32

	// Steps counts executed yields since ResetSteps. Budget > 0 makes the
	// yield that exceeds it panic with BudgetExceeded.
	Steps  int64
	Budget int64
)

// BudgetExceeded is the panic value raised when the step budget runs out.
type BudgetExceeded struct{ Steps int64 }

//go:norace
func Yield(site int32) {
	Steps++
	if Budget > 0 && Steps > Budget {
		b := Budget
		Budget = 0 // let deferred code run
		panic(BudgetExceeded{Steps: b})
	}
	if !active {
		return
	}
	lastSite = site
	quantum--
	if quantum > 0 {
		return
	}
	me := turn
	turn = -1
	wait(me)
}

//go:norace
func wait(id int32) {
	for n := 0; turn != id; n++ {
		if n < 200 {
			runtime.Gosched()
		} else {
			time.Sleep(20 * time.Microsecond)
		}
	}
}

// Resume lets client id run for q yields and returns the site at which it
// stopped (scheduler side). It returns when the client yields or finishes.
//
//go:norace
func Resume(id int32, q int64) int32 {
	quantum = q
	turn = id
	wait(-1)
	return lastSite
}

// ClientStart parks the calling client goroutine until it is first resumed.
//
//go:norace
func ClientStart(id int32) { wait(id) }

// ClientDone hands control back for good.
//
//go:norace
func ClientDone(id int32) {
	lastSite = -1
	turn = -1
}

// ClientYield is an explicit yield point for seam crossings in harness code.
//
//go:norace
func ClientYield(site int32) {
	if !active {
		return
	}
	lastSite = site
	me := turn
	turn = -1
	wait(me)
}

//go:norace
func SetActive(a bool) {
	active = a
	turn = -1
}

//go:norace
func ResetSteps(budget int64) {
	Steps = 0
	Budget = budget
}

//go:norace
func StepCount() int64 { return Steps }

// ---------------------------------------------------------------- map order

// Entry is one snapshot element of a ranged map.
type Entry[K comparable, V any] struct {
	K K
	V V
}

// OrderHook, when set, returns the permutation to apply to the n sorted
// entries at this visit of the site (nil: keep sorted order).
var OrderHook func(site int32, n int) []int

// VisitHook, when set, is told about every site visit with n > 1 entries.
var VisitHook func(site int32, n int)

func order(site int32, n int) []int {
	if n > 1 && VisitHook != nil {
		VisitHook(site, n)
	}
	if n > 1 && OrderHook != nil {
		return OrderHook(site, n)
	}
	return nil
}

// MapEntries returns the entries of m in the simulator's order.
func MapEntries[K ~string, V any](m map[K]V, site int32) []Entry[K, V] {
	if len(m) == 0 {
		return nil
	}
	es := make([]Entry[K, V], 0, len(m))
	for k, v := range m {
		es = append(es, Entry[K, V]{k, v})
	}
	sort.Slice(es, func(i, j int) bool { return es[i].K < es[j].K })
	if p := order(site, len(es)); p != nil {
		out := make([]Entry[K, V], len(es))
		for i, j := range p {
			out[i] = es[j]
		}
		return out
	}
	return es
}

// MapEntriesAny is the fallback for maps whose key is not a string kind
// (none in the unchanged tree; a change may introduce one). The canonical
// order is by a rendering of the key that does not depend on addresses where
// one exists (numbers, strings, anything with an Ident() method); keys without
// one (bare pointers) tie and stay in Go's own order for that visit, which is
// then not the simulator's to replay - the order is still permuted, so a
// result that depends on it still differs between loads.
func MapEntriesAny[K comparable, V any](m map[K]V, site int32) []Entry[K, V] {
	if len(m) == 0 {
		return nil
	}
	es := make([]Entry[K, V], 0, len(m))
	ks := make([]string, 0, len(m))
	for k, v := range m {
		es = append(es, Entry[K, V]{k, v})
	}
	for i := range es {
		ks = append(ks, keyString(es[i].K))
	}
	idx := make([]int, len(es))
	for i := range idx {
		idx[i] = i
	}
	sort.SliceStable(idx, func(i, j int) bool { return ks[idx[i]] < ks[idx[j]] })
	sorted := make([]Entry[K, V], len(es))
	for i, j := range idx {
		sorted[i] = es[j]
	}
	if p := order(site, len(sorted)); p != nil {
		out := make([]Entry[K, V], len(sorted))
		for i, j := range p {
			out[i] = sorted[j]
		}
		return out
	}
	return sorted
}

func keyString(k interface{}) string {
	v := reflect.ValueOf(k)
	if !v.IsValid() {
		return ""
	}
	switch v.Kind() {
	case reflect.String:
		return v.String()
	case reflect.Int, reflect.Int8, reflect.Int16, reflect.Int32, reflect.Int64:
		return fmt.Sprintf("%020d", uint64(v.Int())+(1<<63))
	case reflect.Uint, reflect.Uint8, reflect.Uint16, reflect.Uint32, reflect.Uint64, reflect.Uintptr:
		return fmt.Sprintf("%020d", v.Uint())
	case reflect.Bool:
		return fmt.Sprint(v.Bool())
	case reflect.Float32, reflect.Float64:
		return fmt.Sprintf("%030.9f", v.Float()+1e18)
	case reflect.Ptr, reflect.Interface:
		if v.IsNil() {
			return ""
		}
		if x, ok := k.(interface{ Ident() string }); ok {
			return identOf(x)
		}
		return ""
	case reflect.Struct, reflect.Array:
		return fmt.Sprintf("%v", k)
	}
	return ""
}

func identOf(x interface{ Ident() string }) (s string) {
	defer func() {
		if recover() != nil {
			s = ""
		}
	}()
	return x.Ident()
}

// MapKeys replaces reflect.Value.MapKeys(): canonical order, then permuted.
func MapKeys(v reflect.Value, site int32) []reflect.Value {
	ks := v.MapKeys()
	sort.Slice(ks, func(i, j int) bool { return lessValue(ks[i], ks[j]) })
	if p := order(site, len(ks)); p != nil {
		out := make([]reflect.Value, len(ks))
		for i, j := range p {
			out[i] = ks[j]
		}
		return out
	}
	return ks
}

func lessValue(a, b reflect.Value) bool {
	for a.Kind() == reflect.Interface {
		a = a.Elem()
	}
	for b.Kind() == reflect.Interface {
		b = b.Elem()
	}
	if a.Kind() != b.Kind() {
		return a.Kind() < b.Kind()
	}
	switch a.Kind() {
	case reflect.String:
		return a.String() < b.String()
	case reflect.Int, reflect.Int8, reflect.Int16, reflect.Int32, reflect.Int64:
		return a.Int() < b.Int()
	case reflect.Uint, reflect.Uint8, reflect.Uint16, reflect.Uint32, reflect.Uint64:
		return a.Uint() < b.Uint()
	case reflect.Float32, reflect.Float64:
		return a.Float() < b.Float()
	case reflect.Bool:
		return !a.Bool() && b.Bool()
	}
	return false
}

// ---------------------------------------------------------------- package globals

// Globals maps "pkg.name" to the address of every package-level variable of
// the instrumented packages; filled by generated init functions.
var Globals = map[string]interface{}{}

func RegisterGlobal(name string, addr interface{}) { Globals[name] = addr }

// Sites maps site id to "pkg.Func" for range sites (filled by generated code).
var RangeSites = map[int32]string{}

func RegisterRangeSite(id int32, where string) { RangeSites[id] = where }
