#!/bin/bash
# usage: ./check.sh <property> [quick|thorough]   |   ./check.sh replay <file>
# Rebuilds the harness against /repo's current working tree, then runs it.
#  - plain build (C03 C09 C12 C15 C18): module replace points at /repo itself;
#  - instrumented build (C06 C13 C14; C20 with -race): tools/simbuild.sh copies
#    /repo's working tree to .cache/inst/src, instruments the copy, builds.
# exit: 0 held, 1 violation, 2 harness/build trouble.
cd "$(dirname "$0")" || exit 2
export GOFLAGS=-mod=mod GOPROXY=off GOSUMDB=off GOTOOLCHAIN=local
export VERIF_ROOT="$(pwd)"
mkdir -p .cache/bin evidence
prop="$1"
if [ "$1" = "replay" ]; then
  prop=$(grep -o '"property": *"C[0-9]*"' "$2" | head -1 | grep -o 'C[0-9]*')
fi
case "$prop" in
  C06|C13|C14)
    tools/simbuild.sh || exit 2
    bin=.cache/bin/verif-inst ;;
  C20)
    tools/simbuild.sh race || exit 2
    bin=.cache/bin/verif-inst-race ;;
  *)
    if ! go build -o .cache/bin/verif ./cmd/verif 2> .cache/build.err; then
      echo "harness: build failed (exit 2, not a violation)" >&2
      cat .cache/build.err >&2
      exit 2
    fi
    bin=.cache/bin/verif ;;
esac
if [ "$1" = "replay" ]; then
  exec $bin replay "$2"
fi
tier="${2:-${VERIF_TIER:-quick}}"
exec $bin check "$1" "$tier"
