#!/bin/bash
# usage: ./check.sh <property> [quick|thorough]   |   ./check.sh replay <file>
# Rebuilds the harness against /repo's current working tree (the module
# replace points at /repo, so every edit there is picked up), then runs it.
# exit: 0 held, 1 violation, 2 harness/build trouble.
cd "$(dirname "$0")" || exit 2
export GOFLAGS=-mod=mod GOPROXY=off GOSUMDB=off GOTOOLCHAIN=local CGO_ENABLED=${CGO_ENABLED:-1}
export VERIF_ROOT="$(pwd)"
mkdir -p .cache/bin evidence
if ! go build -o .cache/bin/verif ./cmd/verif 2> .cache/build.err; then
  echo "harness: build failed (exit 2, not a violation)" >&2
  cat .cache/build.err >&2
  exit 2
fi
if [ "$1" = "replay" ]; then
  exec .cache/bin/verif replay "$2"
fi
tier="${2:-${VERIF_TIER:-quick}}"
exec .cache/bin/verif check "$1" "$tier"
