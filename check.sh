#!/bin/bash
# usage: ./check.sh <property> [quick|thorough]   |   ./check.sh replay <file>
# Rebuilds the harness against /repo's current working tree, then runs it.
#  - plain build (C03 C09 C12 C15 C18): module replace points at /repo itself;
#  - instrumented build (C06 C13 C14; C20 with -race): tools/simbuild.sh copies
#    /repo's working tree to .cache/inst/src, instruments the copy, builds.
# exit: 0 held, 1 violation, 2 harness/build trouble.
# Developer knobs (never set by the registered commands): VERIF_REPO (another
# checkout instead of /repo), VERIF_CACHE (build cache directory), VERIF_OUT
# (where evidence/ and replays/ are written) let trials of seeded changes run
# on scratch worktrees, several at a time, without touching /repo or evidence/.
cd "$(dirname "$0")" || exit 2
export GOFLAGS=-mod=mod GOPROXY=off GOSUMDB=off GOTOOLCHAIN=local
export VERIF_ROOT="$(pwd)"
REPO=${VERIF_REPO:-/repo}
CACHE=${VERIF_CACHE:-$VERIF_ROOT/.cache}
export VERIF_CACHE="$CACHE"
mkdir -p "$CACHE/bin" "${VERIF_OUT:-$VERIF_ROOT}/evidence"
prop="$1"
if [ "$1" = "replay" ]; then
  prop=$(grep -o '"property": *"C[0-9]*"' "$2" | head -1 | grep -o 'C[0-9]*')
fi
case "$prop" in
  C06|C13|C14)
    tools/simbuild.sh || exit 2
    bin=$CACHE/bin/verif-inst ;;
  C20)
    tools/simbuild.sh race || exit 2
    bin=$CACHE/bin/verif-inst-race ;;
  *)
    modflag=""
    if [ "$REPO" != "/repo" ]; then
      sed "s#=> /repo#=> $REPO#" go.mod > "$CACHE/go.plain.mod"; cp -f go.sum "$CACHE/go.plain.sum"
      modflag="-modfile=$CACHE/go.plain.mod"
    fi
    if ! go build $modflag -o "$CACHE/bin/verif" ./cmd/verif 2> "$CACHE/build.err"; then
      echo "harness: build failed (exit 2, not a violation)" >&2
      cat "$CACHE/build.err" >&2
      exit 2
    fi
    bin=$CACHE/bin/verif ;;
esac
if [ "$1" = "replay" ]; then
  exec $bin replay "$2"
fi
tier="${2:-${VERIF_TIER:-quick}}"
exec $bin check "$1" "$tier"
