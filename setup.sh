#!/bin/bash
# Builds the framework offline from files on disk only: the plain harness, the
# instrumented scratch copy of /repo and the harness against it (plain and
# -race), then runs the instrumentation self-check (repo suite on the copy).
cd "$(dirname "$0")" || exit 2
export GOFLAGS=-mod=mod GOPROXY=off GOSUMDB=off GOTOOLCHAIN=local
mkdir -p .cache/bin evidence replays
go build -o .cache/bin/verif ./cmd/verif || exit 2
tools/simbuild.sh || exit 2
tools/simbuild.sh race || exit 2
if [ "${VERIF_SKIP_SELFCHECK:-0}" != "1" ]; then
  tools/selfcheck.sh || exit 2
fi
echo "setup ok"
