#!/bin/bash
# Builds the framework offline from files on disk only.
cd "$(dirname "$0")" || exit 2
export GOFLAGS=-mod=mod GOPROXY=off GOSUMDB=off GOTOOLCHAIN=local
mkdir -p .cache/bin evidence replays
go build -o .cache/bin/verif ./cmd/verif || exit 2
echo "setup ok"
