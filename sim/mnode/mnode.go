// Package mnode is a harness-written node.Node over the reference model's
// tree. It serves three purposes: the control store (if it disagrees with the
// model the harness is wrong), a source node for edits, and the capturing
// node that exports are written into.
package mnode

import (
	"context"
	"encoding/json"
	"fmt"
	"strconv"
	"strings"

	"github.com/freeconf/yang/meta"
	"github.com/freeconf/yang/node"
	"github.com/freeconf/yang/val"

	"verif/sim/model"
	"verif/sim/schema"
)

// ToVal converts a canonical model string to a typed value without going
// through the library's conversion code.
func ToVal(s *schema.Node, v string) (val.Value, error) {
	switch s.Type {
	case "string":
		return val.String(v), nil
	case "int32":
		n, err := strconv.ParseInt(v, 10, 32)
		return val.Int32(n), err
	case "int64":
		n, err := strconv.ParseInt(v, 10, 64)
		return val.Int64(n), err
	case "uint8":
		n, err := strconv.ParseUint(v, 10, 8)
		return val.UInt8(n), err
	case "int8":
		n, err := strconv.ParseInt(v, 10, 8)
		return val.Int8(n), err
	case "int16":
		n, err := strconv.ParseInt(v, 10, 16)
		return val.Int16(n), err
	case "uint16":
		n, err := strconv.ParseUint(v, 10, 16)
		return val.UInt16(n), err
	case "uint32":
		n, err := strconv.ParseUint(v, 10, 32)
		return val.UInt32(n), err
	case "uint64":
		n, err := strconv.ParseUint(v, 10, 64)
		return val.UInt64(n), err
	case "binary":
		return val.Binary([]byte(v)), nil
	case "anydata":
		if strings.HasPrefix(v, "@sel:") {
			if AnySelection == nil {
				return nil, fmt.Errorf("harness: no AnySelection hook")
			}
			x, err := AnySelection(v)
			return val.Any{Thing: x}, err
		}
		var x interface{}
		dec := json.NewDecoder(strings.NewReader(v))
		dec.UseNumber()
		if err := dec.Decode(&x); err != nil {
			return nil, fmt.Errorf("harness: anydata value %q: %v", v, err)
		}
		return val.Any{Thing: x}, nil
	case "empty":
		return val.NotEmpty, nil
	case "identityref":
		return val.IdentRef{Label: v}, nil
	case "union", "unione":
		if n, err := strconv.ParseInt(v, 10, 32); err == nil {
			return val.Int32(n), nil
		}
		return val.String(v), nil
	case "bits":
		b := val.Bits{}
		for _, l := range strings.Fields(v) {
			for i, name := range s.Bits {
				if name == l {
					b.Positions |= 1 << uint(i)
					b.Labels = append(b.Labels, l)
				}
			}
		}
		return b, nil
	case "boolean":
		return val.Bool(v == "true"), nil
	case "decimal64", "decimal64x":
		f, err := strconv.ParseFloat(v, 64)
		return val.Decimal64(f), err
	case "enum":
		for i, e := range s.Enums {
			if e == v {
				return val.Enum{Id: i, Label: e}, nil
			}
		}
		return nil, fmt.Errorf("model holds %q which is not an enum of %s", v, s.Name)
	}
	return nil, fmt.Errorf("unsupported model type %s", s.Type)
}

// AnySelection builds the thing an "@sel:…" anydata value stands for (a
// node.Selection by value); set by the check that uses it.
var AnySelection func(spec string) (interface{}, error)

func ToValList(s *schema.Node, vs []string) (val.Value, error) {
	switch s.Type {
	case "string":
		return val.StringList(append([]string(nil), vs...)), nil
	case "enum":
		var out val.EnumList
		for _, v := range vs {
			x, err := ToVal(s, v)
			if err != nil {
				return nil, err
			}
			out = append(out, x.(val.Enum))
		}
		return out, nil
	case "uint64":
		out := make([]uint64, len(vs))
		for i, v := range vs {
			n, err := strconv.ParseUint(v, 10, 64)
			if err != nil {
				return nil, err
			}
			out[i] = n
		}
		return val.UInt64List(out), nil
	case "boolean":
		out := make([]bool, len(vs))
		for i, v := range vs {
			out[i] = v == "true"
		}
		return val.BoolList(out), nil
	case "decimal64":
		out := make([]float64, len(vs))
		for i, v := range vs {
			f, err := strconv.ParseFloat(v, 64)
			if err != nil {
				return nil, err
			}
			out[i] = f
		}
		return val.Decimal64List(out), nil
	case "union", "unione":
		// the first member type that takes every item: int32, else string
		ints := make([]int32, len(vs))
		allInt := true
		for i, v := range vs {
			n, err := strconv.ParseInt(v, 10, 32)
			if err != nil {
				allInt = false
				break
			}
			ints[i] = int32(n)
		}
		if allInt {
			return val.Int32List(ints), nil
		}
		return val.StringList(append([]string(nil), vs...)), nil
	case "bits":
		var out val.BitsList
		for _, v := range vs {
			x, err := ToVal(s, v)
			if err != nil {
				return nil, err
			}
			out = append(out, x.(val.Bits))
		}
		return out, nil
	case "binary":
		var out val.BinaryList
		for _, v := range vs {
			out = append(out, []byte(v))
		}
		return out, nil
	case "identityref":
		var out val.IdentRefList
		for _, v := range vs {
			out = append(out, val.IdentRef{Label: v})
		}
		return out, nil
	case "int32":
		out := make([]int32, len(vs))
		for i, v := range vs {
			n, err := strconv.ParseInt(v, 10, 32)
			if err != nil {
				return nil, err
			}
			out[i] = int32(n)
		}
		return val.Int32List(out), nil
	}
	return nil, fmt.Errorf("unsupported model leaf-list type %s", s.Type)
}

// FromVal renders a typed value canonically.
func FromVal(v val.Value) []string {
	if l, ok := v.(val.Listable); ok {
		out := make([]string, l.Len())
		for i := range out {
			out[i] = scalar(l.Item(i))
		}
		return out
	}
	return []string{scalar(v)}
}

func scalar(v val.Value) string {
	switch x := v.(type) {
	case val.Decimal64:
		return model.FormatDecimal(float64(x))
	case val.NotEmptyType:
		return "" // the model's canonical value of an empty-typed leaf
	}
	return v.String()
}

// N is a node over a tree (container/entry/root) or over a list.
type N struct {
	T *model.Tree
	L *model.ListT
	// ReadOnly panics on writes (used as a pure source).
	ReadOnly bool
	// Lenient: a stored text that does not convert to the leaf's type reads as
	// unset instead of failing (request-damage sessions store what the library
	// accepted, which is not this package's business to judge).
	Lenient bool
	// Exclusive makes writes enforce choice exclusivity the way a store with a
	// real one-of representation would (off: behaves like a plain map).
	OnWrite func()
}

func Tree(t *model.Tree) *N  { return &N{T: t} }
func List(l *model.ListT) *N { return &N{L: l} }

func (n *N) child(t *model.Tree) *N {
	return &N{T: t, ReadOnly: n.ReadOnly, OnWrite: n.OnWrite, Lenient: n.Lenient}
}
func (n *N) list(l *model.ListT) *N {
	return &N{L: l, ReadOnly: n.ReadOnly, OnWrite: n.OnWrite, Lenient: n.Lenient}
}
func (n *N) wrote() {
	if n.ReadOnly {
		panic("mnode: write to read-only source")
	}
	if n.OnWrite != nil {
		n.OnWrite()
	}
}

func (n *N) Child(r node.ChildRequest) (node.Node, error) {
	if n.T == nil {
		return nil, fmt.Errorf("mnode: Child on list node")
	}
	name := r.Meta.Ident()
	s := n.T.S.Child(name)
	if s == nil {
		return nil, fmt.Errorf("mnode: %s not in model schema of %s", name, n.T.S.Name)
	}
	if r.Delete {
		n.wrote()
		n.T.Remove(name)
		return nil, nil
	}
	if s.Kind == schema.List {
		if r.New {
			n.wrote()
			l := &model.ListT{S: s}
			n.T.List[name] = l
			return n.list(l), nil
		}
		if l, ok := n.T.List[name]; ok {
			return n.list(l), nil
		}
		return nil, nil
	}
	if r.New {
		n.wrote()
		c := model.New(s)
		n.T.Cont[name] = c
		return n.child(c), nil
	}
	if c, ok := n.T.Cont[name]; ok {
		return n.child(c), nil
	}
	return nil, nil
}

func keyStrings(key []val.Value) []string {
	out := make([]string, len(key))
	for i, k := range key {
		if k != nil {
			out[i] = scalar(k)
		}
	}
	return out
}

func (n *N) keyVals(e *model.Tree) ([]val.Value, error) {
	var out []val.Value
	for _, k := range e.S.Keys {
		v, err := ToVal(e.S.Child(k), e.Leaf[k])
		if err != nil && n.Lenient {
			out = append(out, nil)
			continue
		}
		if err != nil {
			return nil, fmt.Errorf("mnode: entry of %s holds key %s=%q: %w", e.S.Path(), k, e.Leaf[k], err)
		}
		out = append(out, v)
	}
	return out, nil
}

func (n *N) Next(r node.ListRequest) (node.Node, []val.Value, error) {
	if n.L == nil {
		return nil, nil, fmt.Errorf("mnode: Next on container node")
	}
	if r.New {
		n.wrote()
		e := model.New(n.L.S)
		n.L.Entries = append(n.L.Entries, e)
		return n.child(e), r.Key, nil
	}
	if len(r.Key) > 0 {
		i, e := n.L.Find(keyStrings(r.Key))
		if r.Delete {
			n.wrote()
			if e != nil {
				n.L.Entries = append(n.L.Entries[:i:i], n.L.Entries[i+1:]...)
			}
			return nil, nil, nil
		}
		if e == nil {
			return nil, nil, nil
		}
		return n.child(e), r.Key, nil
	}
	if r.Row < len(n.L.Entries) {
		e := n.L.Entries[r.Row]
		k, err := n.keyVals(e)
		return n.child(e), k, err
	}
	return nil, nil, nil
}

func (n *N) Field(r node.FieldRequest, hnd *node.ValueHandle) error {
	if n.T == nil {
		return fmt.Errorf("mnode: Field on list node")
	}
	name := r.Meta.Ident()
	s := n.T.S.Child(name)
	if s == nil {
		return fmt.Errorf("mnode: leaf %s not in model schema of %s", name, n.T.S.Name)
	}
	if r.Write {
		n.wrote()
		if r.Clear || hnd.Val == nil {
			n.T.Remove(name)
			return nil
		}
		vs := FromVal(hnd.Val)
		if s.Kind == schema.LeafList {
			n.T.LL[name] = vs
		} else {
			n.T.Leaf[name] = vs[0]
		}
		return nil
	}
	var err error
	if s.Kind == schema.LeafList {
		if vs, ok := n.T.LL[name]; ok {
			hnd.Val, err = ToValList(s, vs)
		}
	} else if v, ok := n.T.Leaf[name]; ok {
		hnd.Val, err = ToVal(s, v)
	}
	if err != nil {
		if n.Lenient {
			// whatever the library stored here earlier is reported as absent
			hnd.Val = nil
			return nil
		}
		err = fmt.Errorf("mnode: model holds %q for %s %s (%s): %w", n.T.Leaf[name], s.Kind, s.Path(), s.Type, err)
	}
	return err
}

func (n *N) Choose(sel *node.Selection, choice *meta.Choice) (*meta.ChoiceCase, error) {
	if n.T == nil {
		return nil, nil
	}
	// deterministic: cases in schema order
	for _, id := range choice.CaseIdents() {
		c := choice.Cases()[id]
		if caseHasData(n.T, c.DataDefinitions()) {
			return c, nil
		}
	}
	return nil, nil
}

func caseHasData(t *model.Tree, defs []meta.Definition) bool {
	for _, d := range defs {
		if ch, ok := d.(*meta.Choice); ok {
			for _, id := range ch.CaseIdents() {
				if caseHasData(t, ch.Cases()[id].DataDefinitions()) {
					return true
				}
			}
			continue
		}
		if t.Has(d.Ident()) {
			return true
		}
	}
	return false
}

func (n *N) BeginEdit(r node.NodeRequest) error { return nil }
func (n *N) EndEdit(r node.NodeRequest) error   { return nil }
func (n *N) Action(r node.ActionRequest) (node.Node, error) {
	return nil, fmt.Errorf("mnode: no actions")
}
func (n *N) Notify(r node.NotifyRequest) (node.NotifyCloser, error) {
	return nil, fmt.Errorf("mnode: no notifications")
}
func (n *N) Peek(sel *node.Selection, consumer interface{}) interface{} { return n.T }
func (n *N) Context(sel *node.Selection) context.Context                { return sel.Context }
func (n *N) Release(sel *node.Selection)                                {}
