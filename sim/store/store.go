// Package store adapts the repository's real node implementations to the
// session simulator: each Store can be loaded from a model tree by writing Go
// values directly, hands the library a root node.Node over those values, and
// can be observed by walking the Go values directly (never through the
// library) back into a model tree.
package store

import (
	"fmt"
	"reflect"
	"sort"
	"strconv"

	"github.com/freeconf/yang/node"
	"github.com/freeconf/yang/nodeutil"
	"github.com/freeconf/yang/val"

	"verif/sim/mnode"
	"verif/sim/model"
	"verif/sim/schema"
)

type Store interface {
	Kind() string
	Caps() schema.Caps
	GenOpts() model.GenOpts
	// Load replaces the content with t (schema s is the module).
	Load(s *schema.Node, t *model.Tree) error
	// Root returns a root node over the current content.
	Root() node.Node
	// Walk observes the content directly.
	Walk() (*model.Tree, error)
	// ListsAsSets: read order of lists is key order by construction.
	ListsAsSets() bool
	// ZeroIsUnset: the representation cannot tell a zero value from unset.
	ZeroIsUnset() bool
	// RealCode says whether the node implementation is the repository's.
	RealCode() bool
}

var Kinds = []string{"ctl", "rmap", "nmap", "nstruct", "rstruct", "nacc", "nstruct0"}

func New(kind string) (Store, error) {
	rest, wrap, tee := SplitWrap(kind)
	if tee {
		a, err := New(rest)
		if err != nil {
			return nil, err
		}
		b, _ := New(rest)
		var st Store = &TeeStore{a: a, b: b}
		if wrap != "" {
			st = &Wrapped{Store: st, wrap: wrap}
		}
		return st, nil
	}
	if wrap != "" {
		in, err := New(rest)
		if err != nil {
			return nil, err
		}
		return &Wrapped{Store: in, wrap: wrap}, nil
	}
	base, mask, err := SplitKind(kind)
	if err != nil {
		return nil, err
	}
	switch base {
	case "ctl":
		return &Ctl{}, nil
	case "rmap":
		return &RMap{hooks: mask}, nil
	case "nmap":
		return &RMap{node: true, hooks: mask}, nil
	case "nstruct":
		return &Struct{useNode: true, hooks: mask}, nil
	case "rstruct":
		return &Struct{hooks: mask}, nil
	case "nstruct0":
		return &Struct{useNode: true, plain: true, hooks: mask}, nil
	case "nacc":
		return &Acc{hooks: mask}, nil
	}
	return nil, fmt.Errorf("unknown store kind %q", kind)
}

// ---------------------------------------------------------------- control

// Ctl is the harness's own store: the model tree behind mnode.
type Ctl struct {
	s *schema.Node
	t *model.Tree
	// Lenient makes reads tolerate stored text that does not convert.
	Lenient bool
}

func (c *Ctl) Kind() string { return "ctl" }
func (c *Ctl) Caps() schema.Caps {
	cp := schema.FullCaps()
	cp.KeyTypes = []string{"int64", "uint8", "enum", "decimal64", "decimal64x"}
	return cp
}
func (c *Ctl) GenOpts() model.GenOpts { return model.DefaultGen() }
func (c *Ctl) ListsAsSets() bool      { return false }
func (c *Ctl) ZeroIsUnset() bool      { return false }
func (c *Ctl) RealCode() bool         { return false }
func (c *Ctl) Root() node.Node {
	n := mnode.Tree(c.t)
	n.Lenient = c.Lenient
	return n
}
func (c *Ctl) Walk() (*model.Tree, error) { return c.t.Clone(), nil }
func (c *Ctl) Load(s *schema.Node, t *model.Tree) error {
	c.s = s
	c.t = t.Clone()
	return nil
}

// ---------------------------------------------------------------- map-backed

// RMap is nodeutil.ReflectChild (node=false) or nodeutil.Node (node=true) over
// map[string]interface{}.
type RMap struct {
	node  bool
	hooks uint32 // pass-through hooks installed on the root node (hooks.go)
	s     *schema.Node
	m     map[string]interface{}
}

func (r *RMap) Kind() string {
	k := "rmap"
	if r.node {
		k = "nmap"
	}
	if r.hooks != 0 {
		k += "+hooks"
	}
	return k
}

func (r *RMap) Caps() schema.Caps {
	c := schema.FullCaps()
	c.CompoundKeys = false // map lists are indexed by the first key only
	c.TypedMaps = !r.node
	if r.node {
		c.IntKeys = false // nodeutil.Node types a new entry's map by the list's key type
	}
	return c
}
func (r *RMap) GenOpts() model.GenOpts { return model.DefaultGen() }
func (r *RMap) ListsAsSets() bool      { return true }
func (r *RMap) ZeroIsUnset() bool      { return false }
func (r *RMap) RealCode() bool         { return true }

func (r *RMap) Root() node.Node {
	if r.node {
		n := &nodeutil.Node{Object: r.m}
		hookNode(n, r.hooks)
		return n
	}
	if r.hooks != 0 {
		return hookReflect(r.hooks).Object(r.m)
	}
	return nodeutil.ReflectChild(r.m)
}

func goScalar(s *schema.Node, v string) (interface{}, error) {
	x, err := mnode.ToVal(s, v)
	if err != nil {
		return nil, err
	}
	return x.Value(), nil
}

func goList(s *schema.Node, vs []string) (interface{}, error) {
	x, err := mnode.ToValList(s, vs)
	if err != nil {
		return nil, err
	}
	return x.Value(), nil
}

func (r *RMap) Load(s *schema.Node, t *model.Tree) error {
	r.s = s
	r.m = map[string]interface{}{}
	return r.fill(func(k string, v interface{}) { r.m[k] = v }, t)
}

func (r *RMap) fill(set func(string, interface{}), t *model.Tree) error {
	for _, c := range t.S.DataChildren() {
		switch c.Kind {
		case schema.Leaf:
			if v, ok := t.Leaf[c.Name]; ok {
				g, err := goScalar(c, v)
				if err != nil {
					return err
				}
				set(c.Name, g)
			}
		case schema.LeafList:
			if v, ok := t.LL[c.Name]; ok {
				g, err := goList(c, v)
				if err != nil {
					return err
				}
				set(c.Name, g)
			}
		case schema.Container:
			if v, ok := t.Cont[c.Name]; ok {
				if tm := typedMapFor(c); !r.node && tm.IsValid() {
					// all leaves of one scalar type: a Go map with that element type
					if err := r.fill(func(k string, x interface{}) { tm.SetMapIndex(reflect.ValueOf(k), reflect.ValueOf(x)) }, v); err != nil {
						return err
					}
					set(c.Name, tm.Interface())
					continue
				}
				m := map[interface{}]interface{}{}
				if err := r.fill(func(k string, x interface{}) { m[k] = x }, v); err != nil {
					return err
				}
				set(c.Name, m)
			}
		case schema.List:
			if l, ok := t.List[c.Name]; ok {
				keyS := c.Child(c.Keys[0])
				var lm reflect.Value
				if keyS.Type == "int32" {
					lm = reflect.ValueOf(map[int]interface{}{})
				} else {
					lm = reflect.ValueOf(map[string]interface{}{})
				}
				for _, e := range l.Entries {
					var em reflect.Value
					if r.node {
						// nodeutil.Node creates entries as map[<keytype>]interface{}
						em = reflect.ValueOf(map[string]interface{}{})
					} else {
						em = reflect.ValueOf(map[interface{}]interface{}{})
					}
					if err := r.fill(func(k string, x interface{}) {
						em.SetMapIndex(reflect.ValueOf(k), reflect.ValueOf(x))
					}, e); err != nil {
						return err
					}
					kv, err := goScalar(keyS, e.Leaf[c.Keys[0]])
					if err != nil {
						return err
					}
					lm.SetMapIndex(reflect.ValueOf(kv), em)
				}
				set(c.Name, lm.Interface())
			}
		}
	}
	return nil
}

// typedMapFor returns an empty map[string]T when every data child of the
// container is a leaf of the one scalar type T (string, int32, boolean).
func typedMapFor(c *schema.Node) reflect.Value {
	kids := c.DataChildren()
	if len(kids) == 0 {
		return reflect.Value{}
	}
	for _, k := range kids {
		if k.Kind != schema.Leaf || k.Type != kids[0].Type {
			return reflect.Value{}
		}
	}
	switch kids[0].Type {
	case "string":
		return reflect.ValueOf(map[string]string{})
	case "int32":
		return reflect.ValueOf(map[string]int{})
	case "boolean":
		return reflect.ValueOf(map[string]bool{})
	}
	return reflect.Value{}
}

func (r *RMap) Walk() (*model.Tree, error) {
	return walkMap(r.s, reflect.ValueOf(r.m))
}

// canon renders a Go leaf value canonically.
func canon(s *schema.Node, v reflect.Value) ([]string, error) {
	for v.Kind() == reflect.Interface || v.Kind() == reflect.Ptr {
		if v.IsNil() {
			return nil, fmt.Errorf("nil leaf value for %s", s.Name)
		}
		v = v.Elem()
	}
	if s.Kind == schema.LeafList {
		if e, ok := v.Interface().(val.EnumList); ok {
			var out []string
			for _, x := range e {
				out = append(out, x.Label)
			}
			return out, nil
		}
		if v.Kind() != reflect.Slice {
			return nil, fmt.Errorf("leaf-list %s holds %s", s.Name, v.Type())
		}
		out := make([]string, v.Len())
		for i := range out {
			x, err := canonScalar(s, v.Index(i))
			if err != nil {
				return nil, err
			}
			out[i] = x
		}
		return out, nil
	}
	x, err := canonScalar(s, v)
	return []string{x}, err
}

func canonScalar(s *schema.Node, v reflect.Value) (string, error) {
	for v.Kind() == reflect.Interface {
		v = v.Elem()
	}
	if e, ok := v.Interface().(val.Enum); ok {
		return e.Label, nil
	}
	switch v.Kind() {
	case reflect.String:
		return v.String(), nil
	case reflect.Int, reflect.Int8, reflect.Int16, reflect.Int32, reflect.Int64:
		if s.Type == "enum" {
			i := int(v.Int())
			if i >= 0 && i < len(s.Enums) {
				return s.Enums[i], nil
			}
		}
		return strconv.FormatInt(v.Int(), 10), nil
	case reflect.Uint, reflect.Uint8, reflect.Uint16, reflect.Uint32, reflect.Uint64:
		return strconv.FormatUint(v.Uint(), 10), nil
	case reflect.Bool:
		return strconv.FormatBool(v.Bool()), nil
	case reflect.Float32, reflect.Float64:
		return model.FormatDecimal(v.Float()), nil
	}
	return "", fmt.Errorf("leaf %s holds unsupported Go value %s", s.Name, v.Type())
}

func deref(v reflect.Value) reflect.Value {
	for v.IsValid() && (v.Kind() == reflect.Interface || v.Kind() == reflect.Ptr) {
		if v.IsNil() {
			return reflect.Value{}
		}
		v = v.Elem()
	}
	return v
}

func sortedKeys(m reflect.Value) []reflect.Value {
	ks := m.MapKeys()
	sort.Slice(ks, func(i, j int) bool {
		a, b := deref(ks[i]), deref(ks[j])
		if a.Kind() == reflect.String && b.Kind() == reflect.String {
			return a.String() < b.String()
		}
		if a.CanInt() && b.CanInt() {
			return a.Int() < b.Int()
		}
		return fmt.Sprint(a.Interface()) < fmt.Sprint(b.Interface())
	})
	return ks
}

func walkMap(s *schema.Node, m reflect.Value) (*model.Tree, error) {
	m = deref(m)
	t := model.New(s)
	if !m.IsValid() {
		return t, nil
	}
	if m.Kind() != reflect.Map {
		return nil, fmt.Errorf("%s: expected map, found %s", s.Name, m.Type())
	}
	known := map[string]bool{}
	for _, c := range s.DataChildren() {
		known[c.Name] = true
		var v reflect.Value
		// keys may be string or interface{}-typed
		kt := m.Type().Key()
		kv := reflect.ValueOf(c.Name)
		if kt.Kind() == reflect.Interface || kt.Kind() == reflect.String {
			if kt.Kind() == reflect.Interface {
				x := reflect.New(kt).Elem()
				x.Set(kv)
				kv = x
			}
			v = m.MapIndex(kv)
		}
		if !v.IsValid() {
			continue
		}
		switch c.Kind {
		case schema.Leaf:
			x, err := canon(c, v)
			if err != nil {
				return nil, err
			}
			t.Leaf[c.Name] = x[0]
		case schema.LeafList:
			x, err := canon(c, v)
			if err != nil {
				return nil, err
			}
			t.LL[c.Name] = x
		case schema.Container:
			if !deref(v).IsValid() {
				continue
			}
			sub, err := walkMap(c, v)
			if err != nil {
				return nil, err
			}
			t.Cont[c.Name] = sub
		case schema.List:
			lv := deref(v)
			if !lv.IsValid() {
				continue
			}
			if lv.Kind() != reflect.Map {
				return nil, fmt.Errorf("list %s: expected map, found %s", c.Name, lv.Type())
			}
			l := &model.ListT{S: c}
			for _, k := range sortedKeys(lv) {
				ev := lv.MapIndex(k)
				if !deref(ev).IsValid() {
					continue
				}
				e, err := walkMap(c, ev)
				if err != nil {
					return nil, err
				}
				l.Entries = append(l.Entries, e)
			}
			t.List[c.Name] = l
		}
	}
	// anything the schema does not know is garbage
	for _, k := range m.MapKeys() {
		ks := fmt.Sprint(deref(k).Interface())
		if !known[ks] {
			return nil, fmt.Errorf("%s: store holds unknown member %q", s.Name, ks)
		}
	}
	return t, nil
}
