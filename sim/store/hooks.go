package store

import (
	"context"
	"fmt"
	"io"
	"reflect"
	"strconv"
	"strings"

	"github.com/freeconf/yang/meta"
	"github.com/freeconf/yang/node"
	"github.com/freeconf/yang/nodeutil"
	"github.com/freeconf/yang/val"

	"verif/sim/kit"
	"verif/sim/model"
	"verif/sim/schema"
)

// Hook variants. nodeutil.Node and nodeutil.Reflect let an application
// override single steps and promise that delegating to the matching Do*
// method (or returning the argument unchanged) "gets the default behaviour".
// A store kind "nstruct+hooks:<hex mask>" installs the pass-through hooks the
// mask selects; everything observable must stay exactly as without hooks, so
// the ordinary oracles apply unchanged while the library's hook plumbing
// (which callback is consulted for which request) is exercised.

// SplitWrap separates a "+wrap:<name>" suffix (the root node handed to the
// library sits inside one of the library's own pass-through wrappers) and a
// "tee:" prefix (two equal stores behind a nodeutil.Tee) from the rest.
func SplitWrap(kind string) (rest, wrap string, tee bool) {
	rest = kind
	if i := strings.Index(rest, "+wrap:"); i >= 0 {
		wrap = rest[i+len("+wrap:"):]
		rest = rest[:i]
	}
	if strings.HasPrefix(rest, "tee:") {
		tee = true
		rest = rest[len("tee:"):]
	}
	return
}

// SplitKind separates "base+hooks:mask" into base kind and mask.
func SplitKind(kind string) (base string, mask uint32, err error) {
	base = kind
	if i := strings.Index(kind, "+hooks:"); i >= 0 {
		base = kind[:i]
		m, e := strconv.ParseUint(kind[i+len("+hooks:"):], 16, 32)
		if e != nil {
			return "", 0, fmt.Errorf("bad hook mask in store kind %q", kind)
		}
		mask = uint32(m)
	}
	return
}

// KeyName is the store kind as it appears in finding keys: the hook mask is
// dropped so that a finding's identity does not depend on the drawn subset.
func KeyName(kind string) string {
	rest, wrap, tee := SplitWrap(kind)
	base, mask, _ := SplitKind(rest)
	if mask != 0 {
		base += "+hooks"
	}
	if wrap != "" {
		base += "+" + wrap
	}
	if tee {
		base = "tee:" + base
	}
	return base
}

// NodeHookNames lists the nodeutil.Node hooks by mask bit.
var NodeHookNames = []string{"OnChild", "OnGetChild", "OnNewChild", "OnDeleteChild", "OnField", "OnGetField", "OnSetField",
	"OnClearField", "OnRead", "OnWrite", "OnBeginEdit+OnEndEdit", "OnChoose", "OnNewListItem", "OnGetByKey", "OnGetByRow",
	"OnDeleteByKey", "OnNewObject", "OnNewNode", "OnOptions", "OnContext"}

// ReflectHookNames lists the nodeutil.Reflect hooks by mask bit.
var ReflectHookNames = []string{"OnChild", "OnField(never selected)", "OnField(selected, nil handlers)"}

// Variant draws a hooked variant of a store kind (or the kind itself).
func Variant(r *kit.Rng, base string) string {
	var n int
	switch base {
	case "nstruct", "nmap", "nacc", "nstruct0":
		n = len(NodeHookNames)
	case "rstruct", "rmap":
		n = len(ReflectHookNames)
	default:
		return base
	}
	switch r.Intn(12) {
	case 0:
		// the library's own pass-through wrappers around the root node
		return base + "+wrap:" + r.Pick([]string{"dump", "trace", "extend"})
	case 1:
		// two equal stores behind nodeutil.Tee: every write must reach both
		return "tee:" + base
	}
	if !r.Chance(1, 3) {
		return base
	}
	var mask uint32
	dens := r.Pick3(1, 2, 4) // of 5
	for i := 0; i < n; i++ {
		if r.Chance(dens, 5) {
			mask |= 1 << uint(i)
		}
	}
	if mask == 0 {
		return base
	}
	return fmt.Sprintf("%s+hooks:%x", base, mask)
}

func hookNode(n *nodeutil.Node, mask uint32) {
	on := func(bit int) bool { return mask&(1<<uint(bit)) != 0 }
	if on(0) {
		n.OnChild = func(n *nodeutil.Node, r node.ChildRequest) (node.Node, error) { return n.DoChild(r) }
	}
	if on(1) {
		n.OnGetChild = func(n *nodeutil.Node, r node.ChildRequest) (node.Node, error) { return n.DoGetChild(r) }
	}
	if on(2) {
		n.OnNewChild = func(n *nodeutil.Node, r node.ChildRequest) (node.Node, error) { return n.DoNewChild(r) }
	}
	if on(3) {
		n.OnDeleteChild = func(n *nodeutil.Node, r node.ChildRequest) error { return n.DoDeleteChild(r) }
	}
	if on(4) {
		n.OnField = func(n *nodeutil.Node, r node.FieldRequest, hnd *node.ValueHandle) error { return n.DoField(r, hnd) }
	}
	if on(5) {
		n.OnGetField = func(n *nodeutil.Node, r node.FieldRequest) (val.Value, error) { return n.DoGetField(r) }
	}
	if on(6) {
		n.OnSetField = func(n *nodeutil.Node, r node.FieldRequest, v val.Value) error { return n.DoSetField(r, v) }
	}
	if on(7) {
		n.OnClearField = func(n *nodeutil.Node, r node.FieldRequest) error { return n.DoClearField(r) }
	}
	if on(8) {
		n.OnRead = func(n *nodeutil.Node, m meta.Definition, t reflect.Type, v reflect.Value) (reflect.Value, error) {
			return v, nil
		}
	}
	if on(9) {
		n.OnWrite = func(n *nodeutil.Node, m meta.Definition, t reflect.Type, v reflect.Value) (reflect.Value, error) {
			return v, nil
		}
	}
	if on(10) {
		n.OnBeginEdit = func(n *nodeutil.Node, r node.NodeRequest) error { return nil }
		n.OnEndEdit = func(n *nodeutil.Node, r node.NodeRequest) error { return nil }
	}
	if on(11) {
		n.OnChoose = func(n *nodeutil.Node, sel *node.Selection, choice *meta.Choice) (*meta.ChoiceCase, error) {
			return n.DoChoose(sel, choice)
		}
	}
	if on(12) {
		n.OnNewListItem = func(n *nodeutil.Node, r node.ListRequest) (node.Node, error) { return n.DoNewListItem(r) }
	}
	if on(13) {
		n.OnGetByKey = func(n *nodeutil.Node, r node.ListRequest) (node.Node, error) { return n.DoGetByKey(r) }
	}
	if on(14) {
		n.OnGetByRow = func(n *nodeutil.Node, r node.ListRequest) (node.Node, []val.Value, error) { return n.DoGetByRow(r) }
	}
	if on(15) {
		n.OnDeleteByKey = func(n *nodeutil.Node, r node.ListRequest) error { return n.DoDeleteByKey(r) }
	}
	if on(16) {
		n.OnNewObject = func(t reflect.Type, m meta.Definition, insideList bool) (reflect.Value, error) {
			return (&nodeutil.Node{}).DoNewObject(t, m, insideList)
		}
	}
	if on(17) {
		n.OnNewNode = func(n *nodeutil.Node, m meta.Meta, obj any) (node.Node, error) {
			c, err := n.DoNewNode(m, obj)
			if err != nil {
				return nil, err
			}
			return c, nil
		}
	}
	if on(18) {
		n.OnOptions = func(n *nodeutil.Node, m meta.Definition, o nodeutil.NodeOptions) nodeutil.NodeOptions { return o }
	}
	if on(19) {
		n.OnContext = func(n *nodeutil.Node, s *node.Selection) context.Context { return s.Context }
	}
}

func hookReflect(mask uint32) nodeutil.Reflect {
	var rf nodeutil.Reflect
	if mask&1 != 0 {
		rf.OnChild = func(r nodeutil.Reflect, v reflect.Value) node.Node { return r.Child(v) }
	}
	if mask&2 != 0 {
		rf.OnField = append(rf.OnField, nodeutil.ReflectField{
			When: func(m meta.Leafable, fieldname string, elem reflect.Value, fieldElem reflect.Value) bool {
				return false
			},
			OnRead: func(leaf meta.Leafable, fieldname string, elem reflect.Value, fieldElem reflect.Value) (val.Value, error) {
				return nil, fmt.Errorf("harness: OnRead of a field handler whose selector said no")
			},
			OnWrite: func(leaf meta.Leafable, fieldname string, elem reflect.Value, fieldElem reflect.Value, v val.Value) error {
				return fmt.Errorf("harness: OnWrite of a field handler whose selector said no")
			},
		})
	}
	if mask&4 != 0 {
		// selected, but with nil OnRead/OnWrite: "Null means use default conversion"
		rf.OnField = append(rf.OnField, nodeutil.ReflectField{
			When: func(m meta.Leafable, fieldname string, elem reflect.Value, fieldElem reflect.Value) bool { return true },
		})
	}
	return rf
}

// Wrapped puts one of the library's pass-through wrappers around the root
// node of a store.
type Wrapped struct {
	Store
	wrap string
}

func (w *Wrapped) Kind() string { return w.Store.Kind() + "+" + w.wrap }
func (w *Wrapped) Root() node.Node {
	n := w.Store.Root()
	switch w.wrap {
	case "dump":
		return nodeutil.Dump(n, io.Discard)
	case "trace":
		return nodeutil.Trace(n, io.Discard)
	case "extend":
		return &nodeutil.Extend{Base: n, OnExtend: func(e *nodeutil.Extend, sel *node.Selection, m meta.HasDefinitions, child node.Node) (node.Node, error) {
			return e.Extend(child), nil
		}}
	}
	return n
}

// TeeStore is two equal stores behind nodeutil.Tee{A,B}. Observing it walks
// both: they must hold the same content.
type TeeStore struct {
	a, b Store
}

func (t *TeeStore) Kind() string           { return "tee:" + t.a.Kind() }
func (t *TeeStore) Caps() schema.Caps      { return t.a.Caps() }
func (t *TeeStore) GenOpts() model.GenOpts { return t.a.GenOpts() }
func (t *TeeStore) ListsAsSets() bool      { return t.a.ListsAsSets() }
func (t *TeeStore) ZeroIsUnset() bool      { return t.a.ZeroIsUnset() }
func (t *TeeStore) RealCode() bool         { return true }
func (t *TeeStore) Load(s *schema.Node, tr *model.Tree) error {
	if err := t.a.Load(s, tr); err != nil {
		return err
	}
	return t.b.Load(s, tr)
}
func (t *TeeStore) Root() node.Node { return nodeutil.Tee{A: t.a.Root(), B: t.b.Root()} }
func (t *TeeStore) Walk() (*model.Tree, error) {
	wa, err := t.a.Walk()
	if err != nil {
		return nil, err
	}
	wb, err := t.b.Walk()
	if err != nil {
		return nil, fmt.Errorf("branch B of the tee: %w", err)
	}
	if d := model.Diff(wa.Clone().DropEmptyLists(), wb.Clone().DropEmptyLists(), t.a.ListsAsSets()); d != "" {
		return nil, fmt.Errorf("the two branches of the tee hold different content at %s (A: %s  B: %s)", d, wa.String(), wb.String())
	}
	return wa, nil
}
