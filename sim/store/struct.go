package store

import (
	"fmt"
	"reflect"

	"github.com/freeconf/yang/node"
	"github.com/freeconf/yang/nodeutil"

	"verif/sim/model"
	"verif/sim/schema"
)

// Struct is nodeutil.Node (useNode) or nodeutil.Reflect over struct types
// built at run time with reflect.StructOf from the generated schema:
// containers are *struct, lists are []*struct or map[K]*struct.
type Struct struct {
	useNode bool
	hooks   uint32 // pass-through hooks installed on the root node (hooks.go)
	plain   bool   // nodeutil.Node with its default options (IgnoreEmpty off): a zero scalar is a value, so schemas have leaves only as keys
	s       *schema.Node
	types   map[*schema.Node]reflect.Type
	root    reflect.Value // pointer to root struct
}

func (st *Struct) Kind() string {
	k := "rstruct"
	if st.useNode {
		k = "nstruct"
	}
	if st.plain {
		k = "nstruct0"
	}
	if st.hooks != 0 {
		k += "+hooks"
	}
	return k
}

func (st *Struct) Caps() schema.Caps {
	c := schema.FullCaps()
	c.MapLists = true
	c.Choices = st.useNode // struct-backed Reflect has no case detection
	c.NoEnums = !st.useNode
	c.ValueLists = !st.useNode
	c.ConvSlices = !st.useNode
	c.Embeds = st.useNode
	c.NoPlainLeaves = st.plain
	// (map-backed lists keep string/int keys: the generator gives other key types to slice lists only)
	if st.useNode && !st.plain {
		c.KeyTypes = []string{"int64", "uint8", "enum", "decimal64", "decimal64x"}
	} else {
		c.KeyTypes = []string{"int64", "uint8", "decimal64", "decimal64x"}
	}
	return c
}

func (st *Struct) GenOpts() model.GenOpts {
	o := model.DefaultGen()
	o.NoZero = true
	return o
}
func (st *Struct) ListsAsSets() bool { return false } // decided per list, see Walk
func (st *Struct) ZeroIsUnset() bool { return true }
func (st *Struct) RealCode() bool    { return true }

func fieldName(n string) string { return nodeutil.MetaNameToFieldName(n) }

func leafType(s *schema.Node) reflect.Type {
	var t reflect.Type
	switch s.Type {
	case "string", "enum":
		t = reflect.TypeOf("")
	case "int32":
		t = reflect.TypeOf(int(0))
	case "int64":
		t = reflect.TypeOf(int64(0))
	case "uint8":
		t = reflect.TypeOf(uint8(0))
	case "boolean":
		t = reflect.TypeOf(false)
	case "decimal64", "decimal64x":
		t = reflect.TypeOf(float64(0))
	default:
		panic("leafType " + s.Type)
	}
	if s.Kind == schema.LeafList {
		if s.Type == "int32" && s.ConvSlice {
			return reflect.TypeOf([]int(nil))
		}
		if s.Type == "int32" {
			return reflect.TypeOf([]int32(nil))
		}
		return reflect.SliceOf(t)
	}
	return t
}

func (st *Struct) typeOf(s *schema.Node) reflect.Type {
	if t, ok := st.types[s]; ok {
		return t
	}
	var fields, embedded []reflect.StructField
	for _, c := range s.DataChildren() {
		f := reflect.StructField{Name: fieldName(c.Name)}
		switch c.Kind {
		case schema.Leaf, schema.LeafList:
			f.Type = leafType(c)
		case schema.Container:
			f.Type = reflect.PtrTo(st.typeOf(c))
		case schema.List:
			et := reflect.PtrTo(st.typeOf(c))
			if c.ValueList && !c.MapList {
				et = st.typeOf(c)
			}
			if c.MapList {
				kt := reflect.TypeOf("")
				if c.Child(c.Keys[0]).Type == "int32" {
					kt = reflect.TypeOf(int(0))
				}
				f.Type = reflect.MapOf(kt, et)
			} else {
				f.Type = reflect.SliceOf(et)
			}
		}
		if c.Embed && st.useNode {
			embedded = append(embedded, f)
		} else {
			fields = append(fields, f)
		}
	}
	if len(embedded) > 0 {
		// a struct embedded by value: its fields are promoted into this one
		fields = append(fields, reflect.StructField{Name: "Emb", Type: reflect.StructOf(embedded), Anonymous: true})
	}
	t := reflect.StructOf(fields)
	st.types[s] = t
	return t
}

func (st *Struct) Load(s *schema.Node, t *model.Tree) error {
	st.s = s
	st.types = map[*schema.Node]reflect.Type{}
	st.root = reflect.New(st.typeOf(s))
	return st.fill(st.root, t)
}

func setLeaf(f reflect.Value, s *schema.Node, vs []string) error {
	if s.Kind == schema.LeafList {
		g, err := goList(s, vs)
		if err != nil {
			return err
		}
		gv := reflect.ValueOf(g)
		if gv.Type() != f.Type() {
			conv := reflect.MakeSlice(f.Type(), gv.Len(), gv.Len())
			for i := 0; i < gv.Len(); i++ {
				conv.Index(i).Set(gv.Index(i).Convert(f.Type().Elem()))
			}
			gv = conv
		}
		f.Set(gv)
		return nil
	}
	if s.Type == "enum" {
		f.SetString(vs[0])
		return nil
	}
	g, err := goScalar(s, vs[0])
	if err != nil {
		return err
	}
	f.Set(reflect.ValueOf(g).Convert(f.Type()))
	return nil
}

func (st *Struct) fill(ptr reflect.Value, t *model.Tree) error {
	e := ptr.Elem()
	for _, c := range t.S.DataChildren() {
		f := e.FieldByName(fieldName(c.Name))
		switch c.Kind {
		case schema.Leaf:
			if v, ok := t.Leaf[c.Name]; ok {
				if err := setLeaf(f, c, []string{v}); err != nil {
					return err
				}
			}
		case schema.LeafList:
			if v, ok := t.LL[c.Name]; ok {
				if err := setLeaf(f, c, v); err != nil {
					return err
				}
			}
		case schema.Container:
			if v, ok := t.Cont[c.Name]; ok {
				p := reflect.New(st.typeOf(c))
				if err := st.fill(p, v); err != nil {
					return err
				}
				f.Set(p)
			}
		case schema.List:
			if l, ok := t.List[c.Name]; ok {
				if c.MapList {
					m := reflect.MakeMap(f.Type())
					for _, en := range l.Entries {
						p := reflect.New(st.typeOf(c))
						if err := st.fill(p, en); err != nil {
							return err
						}
						kv, err := goScalar(c.Child(c.Keys[0]), en.Leaf[c.Keys[0]])
						if err != nil {
							return err
						}
						m.SetMapIndex(reflect.ValueOf(kv), p)
					}
					f.Set(m)
				} else {
					sl := reflect.MakeSlice(f.Type(), 0, len(l.Entries))
					for _, en := range l.Entries {
						p := reflect.New(st.typeOf(c))
						if err := st.fill(p, en); err != nil {
							return err
						}
						if c.ValueList {
							sl = reflect.Append(sl, p.Elem())
						} else {
							sl = reflect.Append(sl, p)
						}
					}
					f.Set(sl)
				}
			}
		}
	}
	return nil
}

func (st *Struct) Root() node.Node {
	if st.useNode {
		n := &nodeutil.Node{
			Object:  st.root.Interface(),
			Options: nodeutil.NodeOptions{IgnoreEmpty: true, EnumAsStrings: true},
		}
		if st.plain {
			n.Options = nodeutil.NodeOptions{}
		}
		hookNode(n, st.hooks)
		return n
	}
	return hookReflect(st.hooks).Object(st.root.Interface())
}

func (st *Struct) Walk() (*model.Tree, error) {
	return st.walk(st.s, st.root)
}

func (st *Struct) walk(s *schema.Node, ptr reflect.Value) (*model.Tree, error) {
	t := model.New(s)
	e := ptr.Elem()
	for _, c := range s.DataChildren() {
		f := e.FieldByName(fieldName(c.Name))
		if !f.IsValid() {
			return nil, fmt.Errorf("no field for %s", c.Name)
		}
		switch c.Kind {
		case schema.Leaf:
			if f.IsZero() {
				continue
			}
			x, err := canon(c, f)
			if err != nil {
				return nil, err
			}
			t.Leaf[c.Name] = x[0]
		case schema.LeafList:
			if f.IsNil() || f.Len() == 0 {
				continue
			}
			x, err := canon(c, f)
			if err != nil {
				return nil, err
			}
			t.LL[c.Name] = x
		case schema.Container:
			if f.IsNil() {
				continue
			}
			sub, err := st.walk(c, f)
			if err != nil {
				return nil, err
			}
			t.Cont[c.Name] = sub
		case schema.List:
			if f.IsNil() {
				continue
			}
			l := &model.ListT{S: c}
			if c.MapList {
				for _, k := range sortedKeys(f) {
					ev := f.MapIndex(k)
					if ev.IsNil() {
						return nil, fmt.Errorf("list %s holds a nil entry under key %v", c.Name, k)
					}
					en, err := st.walk(c, ev)
					if err != nil {
						return nil, err
					}
					l.Entries = append(l.Entries, en)
				}
			} else {
				for i := 0; i < f.Len(); i++ {
					ev := f.Index(i)
					if c.ValueList {
						ev = ev.Addr()
					} else if ev.IsNil() {
						return nil, fmt.Errorf("list %s holds a nil entry at row %d", c.Name, i)
					}
					en, err := st.walk(c, ev)
					if err != nil {
						return nil, err
					}
					l.Entries = append(l.Entries, en)
				}
			}
			t.List[c.Name] = l
		}
	}
	return t, nil
}
