package store

import (
	"fmt"
	"reflect"

	"github.com/freeconf/yang/node"
	"github.com/freeconf/yang/nodeutil"

	"verif/sim/model"
	"verif/sim/schema"
)

// Acc ("nacc") is nodeutil.Node over hand-written Go types whose members are
// reached the ways nodeutil/node_struct.go discovers them: a plain field named
// after the YANG identifier, a field carrying a `yang:"name"` tag, a
// GetX()/SetX(v) method pair, and a method pair that also returns an error.
// Types built with reflect.StructOf cannot have methods, so these types are
// fixed; the schema of a scenario is a seeded sub-schema of AccFixture().
//
// Every Go field carries a `verif:"<yang name>"` tag, which is how the harness
// (never the library) finds it; fields behind accessors are named so that the
// library's own name matching cannot see them (X-prefixed).

type AccRoot struct {
	XFa  string            `verif:"fa"` // GetFa / SetFa
	Bee  int               `verif:"fb" yang:"fb"`
	Fc   int64             `verif:"fc"`  // plain field
	XFd  string            `verif:"fd"`  // GetFd() (string, error) / SetFd(string) error
	XLla []string          `verif:"lla"` // GetLla / SetLla
	Llb  []int32           `verif:"llb"` // plain field
	XCa  *AccCa            `verif:"ca"`  // GetCa / SetCa
	Cc   *AccCc            `verif:"cc"`  // plain field
	La   []*AccLa          `verif:"la"`  // plain field, slice
	XLd  map[string]*AccLd `verif:"ld"`  // GetLd / SetLd, map
	XLe  []*AccLe          `verif:"le"`  // GetLe / SetLe, slice, compound key
	XFp  string            `verif:"fp"`  // choice ch, case c1
	Fq   int               `verif:"fq"`  // choice ch, case c1
	XCe  *AccCe            `verif:"ce"`  // choice ch, case c2
	Lf   []*AccLf          `verif:"lf"`  // choice ch, case c3
}

func (x *AccRoot) GetFa() string             { return x.XFa }
func (x *AccRoot) SetFa(v string)            { x.XFa = v }
func (x *AccRoot) GetFd() (string, error)    { return x.XFd, nil }
func (x *AccRoot) SetFd(v string) error      { x.XFd = v; return nil }
func (x *AccRoot) GetLla() []string          { return x.XLla }
func (x *AccRoot) SetLla(v []string)         { x.XLla = v }
func (x *AccRoot) GetCa() *AccCa             { return x.XCa }
func (x *AccRoot) SetCa(v *AccCa)            { x.XCa = v }
func (x *AccRoot) GetLd() map[string]*AccLd  { return x.XLd }
func (x *AccRoot) SetLd(v map[string]*AccLd) { x.XLd = v }
func (x *AccRoot) GetLe() []*AccLe           { return x.XLe }
func (x *AccRoot) SetLe(v []*AccLe) error    { x.XLe = v; return nil }
func (x *AccRoot) GetFp() string             { return x.XFp }
func (x *AccRoot) SetFp(v string)            { x.XFp = v }
func (x *AccRoot) GetCe() *AccCe             { return x.XCe }
func (x *AccRoot) SetCe(v *AccCe)            { x.XCe = v }

// Rpcs of the fixture schema are served by methods, found by nodeutil.Node's
// reflection-based action handling: zzact echoes its input, zznoin takes none.
type AccActIn struct {
	Aa string
	Ab int
}
type AccActOut struct {
	Ob string
	Oc int
}

func (x *AccRoot) Zzact(in *AccActIn) (*AccActOut, error) {
	if in == nil {
		return &AccActOut{Ob: "nil-input:" + x.XFa}, nil
	}
	return &AccActOut{Ob: in.Aa + "@" + x.XFa, Oc: in.Ab + 1}, nil
}

// (the YANG rpc declares no input; the Go method takes a parameter all the same)
func (x *AccRoot) Zznoin(in *AccActIn) (*AccActOut, error) {
	return &AccActOut{Ob: "noin@" + x.XFa}, nil
}

type AccCa struct {
	XFe string   `verif:"fe"` // GetFe / SetFe
	Ff  int      `verif:"ff"`
	XCb *AccCb   `verif:"cb"` // GetCb / SetCb
	XLc []*AccLc `verif:"lc"` // GetLc / SetLc
}

func (x *AccCa) GetFe() string    { return x.XFe }
func (x *AccCa) SetFe(v string)   { x.XFe = v }
func (x *AccCa) GetCb() *AccCb    { return x.XCb }
func (x *AccCa) SetCb(v *AccCb)   { x.XCb = v }
func (x *AccCa) GetLc() []*AccLc  { return x.XLc }
func (x *AccCa) SetLc(v []*AccLc) { x.XLc = v }

type AccCb struct {
	Gee string `verif:"fg" yang:"fg"`
	XFs int    `verif:"fs"` // GetFs / SetFs
}

func (x *AccCb) GetFs() int  { return x.XFs }
func (x *AccCb) SetFs(v int) { x.XFs = v }

type AccLc struct {
	XKc string `verif:"kc"` // GetKc / SetKc
	Fh  int    `verif:"fh"`
}

func (x *AccLc) GetKc() string  { return x.XKc }
func (x *AccLc) SetKc(v string) { x.XKc = v }

type AccCc struct {
	Fi  string `verif:"fi"`
	XFj int    `verif:"fj"` // GetFj / SetFj
}

func (x *AccCc) GetFj() int  { return x.XFj }
func (x *AccCc) SetFj(v int) { x.XFj = v }

type AccLa struct {
	XKa  string   `verif:"ka"` // GetKa / SetKa
	Fk   string   `verif:"fk"`
	XLlc []string `verif:"llc"` // GetLlc / SetLlc
	XCd  *AccCd   `verif:"cd"`  // GetCd / SetCd
	Lb   []*AccLb `verif:"lb"`
}

func (x *AccLa) GetKa() string     { return x.XKa }
func (x *AccLa) SetKa(v string)    { x.XKa = v }
func (x *AccLa) GetLlc() []string  { return x.XLlc }
func (x *AccLa) SetLlc(v []string) { x.XLlc = v }
func (x *AccLa) GetCd() *AccCd     { return x.XCd }
func (x *AccLa) SetCd(v *AccCd)    { x.XCd = v }

type AccCd struct {
	Ell int    `verif:"fl" yang:"fl"`
	XFt string `verif:"ft"` // GetFt / SetFt
}

func (x *AccCd) GetFt() string  { return x.XFt }
func (x *AccCd) SetFt(v string) { x.XFt = v }

type AccLb struct {
	Kb  int    `verif:"kb"`
	XFm string `verif:"fm"` // GetFm / SetFm
}

func (x *AccLb) GetFm() string  { return x.XFm }
func (x *AccLb) SetFm(v string) { x.XFm = v }

type AccLd struct {
	Kd  string `verif:"kd"`
	XFn string `verif:"fn"` // GetFn / SetFn
}

func (x *AccLd) GetFn() string  { return x.XFn }
func (x *AccLd) SetFn(v string) { x.XFn = v }

type AccLe struct {
	XKe string `verif:"ke"` // GetKe / SetKe
	Kf  int    `verif:"kf"`
	Oh  string `verif:"fo" yang:"fo"`
}

func (x *AccLe) GetKe() string  { return x.XKe }
func (x *AccLe) SetKe(v string) { x.XKe = v }

type AccCe struct {
	Fr  string `verif:"fr"`
	XFu int    `verif:"fu"` // GetFu / SetFu
}

func (x *AccCe) GetFu() int  { return x.XFu }
func (x *AccCe) SetFu(v int) { x.XFu = v }

type AccLf struct {
	XKg string `verif:"kg"` // GetKg / SetKg
	Fv  string `verif:"fv"`
}

func (x *AccLf) GetKg() string  { return x.XKg }
func (x *AccLf) SetKg(v string) { x.XKg = v }

// AccFixture is the schema the fixture types can hold (names are unique over
// the whole schema).
func AccFixture() *schema.Node {
	leaf := func(n, t string) *schema.Node { return &schema.Node{Kind: schema.Leaf, Name: n, Type: t} }
	ll := func(n, t string) *schema.Node { return &schema.Node{Kind: schema.LeafList, Name: n, Type: t} }
	cont := func(n string, ch ...*schema.Node) *schema.Node {
		return &schema.Node{Kind: schema.Container, Name: n, Children: ch}
	}
	list := func(n string, keys []string, ch ...*schema.Node) *schema.Node {
		return &schema.Node{Kind: schema.List, Name: n, Keys: keys, Children: ch}
	}
	fd := leaf("fd", "enum")
	fd.Enums = []string{"red", "green", "blue"}
	ld := list("ld", []string{"kd"}, leaf("kd", "string"), leaf("fn", "string"))
	ld.MapList = true
	m := &schema.Node{Kind: schema.Module, Name: "m", Actions: true, Children: []*schema.Node{
		leaf("fa", "string"), leaf("fb", "int32"), leaf("fc", "int64"), fd,
		ll("lla", "string"), ll("llb", "int32"),
		cont("ca", leaf("fe", "string"), leaf("ff", "int32"),
			cont("cb", leaf("fg", "string"), leaf("fs", "int32")),
			list("lc", []string{"kc"}, leaf("kc", "string"), leaf("fh", "int32"))),
		cont("cc", leaf("fi", "string"), leaf("fj", "int32")),
		list("la", []string{"ka"}, leaf("ka", "string"), leaf("fk", "string"), ll("llc", "string"),
			cont("cd", leaf("fl", "int32"), leaf("ft", "string")),
			list("lb", []string{"kb"}, leaf("kb", "int32"), leaf("fm", "string"))),
		ld,
		list("le", []string{"ke", "kf"}, leaf("ke", "string"), leaf("kf", "int32"), leaf("fo", "string")),
		{Kind: schema.Choice, Name: "ch", Children: []*schema.Node{
			{Kind: schema.Case, Name: "c1", Children: []*schema.Node{leaf("fp", "string"), leaf("fq", "int32")}},
			{Kind: schema.Case, Name: "c2", Children: []*schema.Node{cont("ce", leaf("fr", "string"), leaf("fu", "int32"))}},
			{Kind: schema.Case, Name: "c3", Children: []*schema.Node{list("lf", []string{"kg"}, leaf("kg", "string"), leaf("fv", "string"))}},
		}},
	}}
	return m.Link()
}

// Acc implements Store over the fixture types.
type Acc struct {
	hooks uint32
	s     *schema.Node
	root  *AccRoot
}

func (a *Acc) Kind() string {
	if a.hooks != 0 {
		return "nacc+hooks"
	}
	return "nacc"
}

func (a *Acc) Caps() schema.Caps {
	c := schema.FullCaps()
	c.Fixture = AccFixture()
	return c
}

func (a *Acc) GenOpts() model.GenOpts {
	o := model.DefaultGen()
	o.NoZero = true
	return o
}
func (a *Acc) ListsAsSets() bool { return false }
func (a *Acc) ZeroIsUnset() bool { return true }
func (a *Acc) RealCode() bool    { return true }

// accField finds the Go field that holds schema node c (by verif tag).
func accField(e reflect.Value, c *schema.Node) reflect.Value {
	t := e.Type()
	for i := 0; i < t.NumField(); i++ {
		if t.Field(i).Tag.Get("verif") == c.Name {
			return e.Field(i)
		}
	}
	return reflect.Value{}
}

func (a *Acc) Load(s *schema.Node, t *model.Tree) error {
	a.s = s
	a.root = &AccRoot{}
	return accFill(reflect.ValueOf(a.root), t)
}

func accFill(ptr reflect.Value, t *model.Tree) error {
	e := ptr.Elem()
	for _, c := range t.S.DataChildren() {
		f := accField(e, c)
		if !f.IsValid() {
			return fmt.Errorf("fixture type %s has no field for %s", e.Type(), c.Name)
		}
		switch c.Kind {
		case schema.Leaf:
			if v, ok := t.Leaf[c.Name]; ok {
				if err := setLeaf(f, c, []string{v}); err != nil {
					return err
				}
			}
		case schema.LeafList:
			if v, ok := t.LL[c.Name]; ok {
				if err := setLeaf(f, c, v); err != nil {
					return err
				}
			}
		case schema.Container:
			if v, ok := t.Cont[c.Name]; ok {
				p := reflect.New(f.Type().Elem())
				if err := accFill(p, v); err != nil {
					return err
				}
				f.Set(p)
			}
		case schema.List:
			l, ok := t.List[c.Name]
			if !ok {
				continue
			}
			if f.Kind() == reflect.Map {
				m := reflect.MakeMap(f.Type())
				for _, en := range l.Entries {
					p := reflect.New(f.Type().Elem().Elem())
					if err := accFill(p, en); err != nil {
						return err
					}
					m.SetMapIndex(reflect.ValueOf(en.Leaf[c.Keys[0]]), p)
				}
				f.Set(m)
			} else {
				sl := reflect.MakeSlice(f.Type(), 0, len(l.Entries))
				for _, en := range l.Entries {
					p := reflect.New(f.Type().Elem().Elem())
					if err := accFill(p, en); err != nil {
						return err
					}
					sl = reflect.Append(sl, p)
				}
				f.Set(sl)
			}
		}
	}
	return nil
}

func (a *Acc) Root() node.Node {
	n := &nodeutil.Node{
		Object:  a.root,
		Options: nodeutil.NodeOptions{IgnoreEmpty: true, EnumAsStrings: true},
	}
	hookNode(n, a.hooks)
	return n
}

func (a *Acc) Walk() (*model.Tree, error) {
	return accWalk(a.s, reflect.ValueOf(a.root))
}

func accWalk(s *schema.Node, ptr reflect.Value) (*model.Tree, error) {
	t := model.New(s)
	e := ptr.Elem()
	for _, c := range s.DataChildren() {
		f := accField(e, c)
		if !f.IsValid() {
			return nil, fmt.Errorf("no field for %s", c.Name)
		}
		switch c.Kind {
		case schema.Leaf:
			if f.IsZero() {
				continue
			}
			x, err := canon(c, f)
			if err != nil {
				return nil, err
			}
			t.Leaf[c.Name] = x[0]
		case schema.LeafList:
			if f.IsNil() || f.Len() == 0 {
				continue
			}
			x, err := canon(c, f)
			if err != nil {
				return nil, err
			}
			t.LL[c.Name] = x
		case schema.Container:
			if f.IsNil() {
				continue
			}
			sub, err := accWalk(c, f)
			if err != nil {
				return nil, err
			}
			t.Cont[c.Name] = sub
		case schema.List:
			if f.IsNil() {
				continue
			}
			l := &model.ListT{S: c}
			if f.Kind() == reflect.Map {
				for _, k := range sortedKeys(f) {
					ev := f.MapIndex(k)
					if ev.IsNil() {
						return nil, fmt.Errorf("list %s holds a nil entry under key %v", c.Name, k)
					}
					en, err := accWalk(c, ev)
					if err != nil {
						return nil, err
					}
					l.Entries = append(l.Entries, en)
				}
			} else {
				for i := 0; i < f.Len(); i++ {
					ev := f.Index(i)
					if ev.IsNil() {
						return nil, fmt.Errorf("list %s holds a nil entry at row %d", c.Name, i)
					}
					en, err := accWalk(c, ev)
					if err != nil {
						return nil, err
					}
					l.Entries = append(l.Entries, en)
				}
			}
			t.List[c.Name] = l
		}
	}
	// members of the fixture that the scenario's sub-schema leaves out must stay untouched (zero)
	et := e.Type()
	for i := 0; i < et.NumField(); i++ {
		name := et.Field(i).Tag.Get("verif")
		if s.Child(name) == nil && !e.Field(i).IsZero() {
			return nil, fmt.Errorf("%s: member %q is not in the schema but holds data", s.Name, name)
		}
	}
	return t, nil
}
