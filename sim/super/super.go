// Package super runs opaque JSON cases on a pool of worker processes (the
// same binary started with a worker sub-command). A worker reads one case per
// line on stdin and answers "START\n" then "END <json>\n". A worker that dies
// or stops answering is attributed to the case it had started.
package super

import (
	"bufio"
	"bytes"
	"fmt"
	"io"
	"os"
	"os/exec"
	"strings"
	"sync"
	"time"
)

// Reply is what came back for one case.
type Reply struct {
	Data    []byte // worker's answer (nil if it died or timed out)
	Died    bool
	Timeout bool
	Stderr  string
}

// Serve is the worker-side loop.
func Serve(handle func(in []byte) []byte) {
	in := bufio.NewReaderSize(os.Stdin, 1<<20)
	out := bufio.NewWriter(os.Stdout)
	for {
		line, err := in.ReadBytes('\n')
		if len(bytes.TrimSpace(line)) > 0 {
			out.WriteString("START\n")
			out.Flush()
			ans := handle(line)
			out.WriteString("END ")
			out.Write(bytes.ReplaceAll(ans, []byte("\n"), []byte(" ")))
			out.WriteString("\n")
			out.Flush()
		}
		if err != nil {
			return
		}
	}
}

type worker struct {
	cmd    *exec.Cmd
	stdin  io.WriteCloser
	lines  chan string
	stderr *capBuf
}

type capBuf struct {
	mu  sync.Mutex
	buf bytes.Buffer
}

func (c *capBuf) Write(p []byte) (int, error) {
	c.mu.Lock()
	defer c.mu.Unlock()
	if c.buf.Len() < 1<<18 {
		c.buf.Write(p)
	}
	return len(p), nil
}

func (c *capBuf) String() string {
	c.mu.Lock()
	defer c.mu.Unlock()
	return c.buf.String()
}

func spawn(sub string, env []string) (*worker, error) {
	cmd := exec.Command(os.Args[0], sub)
	cmd.Env = append(append(os.Environ(), "GOTRACEBACK=single"), env...)
	stdin, err := cmd.StdinPipe()
	if err != nil {
		return nil, err
	}
	so, err := cmd.StdoutPipe()
	if err != nil {
		return nil, err
	}
	w := &worker{cmd: cmd, stdin: stdin, lines: make(chan string, 4), stderr: &capBuf{}}
	cmd.Stderr = w.stderr
	if err := cmd.Start(); err != nil {
		return nil, err
	}
	go func() {
		rd := bufio.NewReaderSize(so, 1<<20)
		for {
			l, err := rd.ReadString('\n')
			if l != "" {
				w.lines <- l
			}
			if err != nil {
				close(w.lines)
				return
			}
		}
	}()
	return w, nil
}

func (w *worker) kill() {
	w.stdin.Close()
	w.cmd.Process.Kill()
	w.cmd.Wait()
}

// Run executes the cases on n workers started with sub-command sub.
func Run(sub string, env []string, cases [][]byte, n int, perCase time.Duration, stop func() bool) ([]Reply, []bool, error) {
	replies := make([]Reply, len(cases))
	done := make([]bool, len(cases))
	var mu sync.Mutex
	next := 0
	var firstErr error
	var wg sync.WaitGroup
	for i := 0; i < n; i++ {
		wg.Add(1)
		go func() {
			defer wg.Done()
			var w *worker
			defer func() {
				if w != nil {
					w.kill()
				}
			}()
			for {
				mu.Lock()
				if next >= len(cases) || (stop != nil && stop()) {
					mu.Unlock()
					return
				}
				idx := next
				next++
				mu.Unlock()
				if w == nil {
					var err error
					if w, err = spawn(sub, env); err != nil {
						mu.Lock()
						firstErr = err
						mu.Unlock()
						return
					}
				}
				line := append(bytes.ReplaceAll(cases[idx], []byte("\n"), []byte(" ")), '\n')
				if _, err := w.stdin.Write(line); err != nil {
					replies[idx] = Reply{Died: true, Stderr: "worker gone before the case was sent"}
					done[idx] = true
					w.kill()
					w = nil
					continue
				}
				r, alive := await(w, perCase)
				replies[idx] = r
				done[idx] = true
				if !alive {
					w.kill()
					w = nil
				}
			}
		}()
	}
	wg.Wait()
	return replies, done, firstErr
}

func await(w *worker, perCase time.Duration) (Reply, bool) {
	t := time.NewTimer(perCase)
	defer t.Stop()
	for {
		select {
		case l, ok := <-w.lines:
			if !ok {
				w.cmd.Wait()
				return Reply{Died: true, Stderr: w.stderr.String()}, false
			}
			if strings.HasPrefix(l, "END ") {
				return Reply{Data: []byte(strings.TrimSpace(l[4:]))}, true
			}
		case <-t.C:
			return Reply{Timeout: true, Stderr: fmt.Sprintf("no answer within %v", perCase)}, false
		}
	}
}

// FatalClass extracts the runtime's fatal error line from a dead worker's stderr.
func FatalClass(stderr string) string {
	for _, l := range strings.Split(stderr, "\n") {
		if strings.HasPrefix(l, "fatal error: ") {
			return strings.TrimPrefix(l, "fatal error: ")
		}
		if strings.HasPrefix(l, "runtime: goroutine stack exceeds") {
			return "stack overflow"
		}
	}
	return "worker died"
}

// FatalFrame is the most frequent repo function in a dead worker's trace.
func FatalFrame(stderr string) string {
	count := map[string]int{}
	best, bestN := "unknown", 0
	for _, l := range strings.Split(stderr, "\n") {
		if strings.HasPrefix(l, "github.com/freeconf/yang/") && !strings.Contains(l, "zzverifrt") {
			if i := strings.LastIndex(l, "("); i > 0 {
				l = l[:i]
			}
			l = strings.TrimPrefix(l, "github.com/freeconf/yang/")
			count[l]++
			if count[l] > bestN || (count[l] == bestN && l < best) {
				best, bestN = l, count[l]
			}
		}
	}
	return best
}
