//go:build verif

// Package req runs sessions of (possibly damaged) requests against a live
// store: edits with JSON/XML bodies arriving through a stream that can fail,
// Find paths, query strings, XPath filters and SetValue arguments. It runs in
// the instrumented build so that every request has a deterministic step
// budget, inside supervised worker processes.
package req

import (
	"encoding/json"
	"fmt"
	"html"
	"net/url"
	"regexp"
	"strconv"
	"strings"

	"github.com/freeconf/yang/node"
	"github.com/freeconf/yang/nodeutil"
	"github.com/freeconf/yang/zzverifrt"

	"verif/sim/kit"
	"verif/sim/model"
	"verif/sim/schema"
	"verif/sim/sess"
	"verif/sim/simio"
	"verif/sim/store"
)

type Request struct {
	Kind       string          `json:"kind"` // edit-json edit-xml find query where setvalue
	Strategy   string          `json:"strategy,omitempty"`
	Path       string          `json:"path"`
	From       string          `json:"from,omitempty"` // find/query/where: first select this (valid) path from the root, then Find Path from there
	Doc        string          `json:"doc,omitempty"`
	Query      string          `json:"query,omitempty"`
	Value      json.RawMessage `json:"value,omitempty"`
	ReadKind   string          `json:"read_fault,omitempty"` // error eof eof-with-data
	ReadAt     int             `json:"read_at,omitempty"`
	Chunks     []int           `json:"chunks,omitempty"`
	Damage     string          `json:"damage"`                // none, or what was done to the valid request
	Inside     bool            `json:"inside,omitempty"`      // truncation/read fault strictly inside the document
	MustReject bool            `json:"must_reject,omitempty"` // the body's shape disagrees with the schema at a container or list
}

type Session struct {
	ID       string       `json:"id"`
	Schema   *schema.Node `json:"schema"`
	Store    string       `json:"store"`
	Init     *model.Tree  `json:"init"`
	Requests []Request    `json:"requests"`
	Budget   int64        `json:"budget,omitempty"`
}

type ReqOutcome struct {
	Kind     string `json:"kind"` // ok error panic budget
	Err      string `json:"err,omitempty"`
	Panic    string `json:"panic,omitempty"`
	PanicAt  string `json:"panic_at,omitempty"`
	Stack    string `json:"stack,omitempty"`
	Steps    int64  `json:"steps"`
	Problem  string `json:"problem,omitempty"` // oracle failure other than panic/budget
	ProblemK string `json:"problem_key,omitempty"`
	LoopAt   string `json:"loop_at,omitempty"`
	Fired    bool   `json:"fired,omitempty"` // the reader fault fired
}

type SessOutcome struct {
	ID       string       `json:"id"`
	Outcomes []ReqOutcome `json:"outcomes"`
	LogHash  string       `json:"log_hash"`
	Err      string       `json:"err,omitempty"`
	Fatal    string       `json:"fatal,omitempty"`
	FatalAt  string       `json:"fatal_at,omitempty"`
	Stderr   string       `json:"stderr,omitempty"`
}

func isEdit(k string) bool { return k == "edit-json" || k == "edit-xml" || k == "setvalue" }

func exec(env *sess.Env, st store.Store, rq *Request, log *kit.Log) (o ReqOutcome) {
	defer func() {
		o.Steps = zzverifrt.StepCount()
		if p := recover(); p != nil {
			if _, ok := p.(zzverifrt.BudgetExceeded); ok {
				o.Kind = "budget"
				o.PanicAt = sess.TopRepoFrame()
				o.Stack = sess.ShortStack()
				return
			}
			o.Kind = "panic"
			o.Panic = sess.NormPanic(p)
			o.PanicAt = sess.TopRepoFrame()
			o.Stack = sess.ShortStack()
		}
	}()
	b := node.NewBrowser(env.Mod, st.Root())
	root := b.Root()
	fail := func(err error) ReqOutcome {
		o.Kind = "error"
		o.Err = err.Error()
		if len(o.Err) > 200 {
			o.Err = o.Err[:200]
		}
		return o
	}
	switch rq.Kind {
	case "edit-json", "edit-xml":
		sel, err := root.Find(rq.Path)
		if err != nil {
			return fail(err)
		}
		if sel == nil {
			o.Kind = "ok"
			o.Err = "entry point not present"
			return o
		}
		rd := &simio.Reader{Data: []byte(rq.Doc), Chunks: rq.Chunks, FailAt: -1, Log: log}
		if rq.ReadKind != "" {
			rd.FailAt = rq.ReadAt
			rd.Kind = rq.ReadKind
		}
		var n node.Node
		if rq.Kind == "edit-json" {
			n, err = nodeutil.ReadJSONIO(rd)
		} else {
			n, err = nodeutil.ReadXMLDoc(rd)
		}
		o.Fired = rd.Fired
		if err != nil {
			return fail(err)
		}
		switch rq.Strategy {
		case "insert":
			err = sel.InsertFrom(n)
		case "update":
			err = sel.UpdateFrom(n)
		default:
			err = sel.UpsertFrom(n)
		}
		if err != nil {
			return fail(err)
		}
	case "find", "query", "where":
		p := rq.Path
		if rq.Query != "" {
			p += "?" + rq.Query
		}
		base := root
		if rq.From != "" {
			var err error
			if base, err = root.Find(rq.From); err != nil {
				return fail(err)
			}
			if base == nil {
				o.Kind = "ok"
				o.Err = "starting point not present"
				return o
			}
		}
		sel, err := base.Find(p)
		if err != nil {
			return fail(err)
		}
		if sel != nil {
			if _, err := nodeutil.WriteJSON(sel); err != nil {
				return fail(err)
			}
		}
	case "action-json", "action-xml":
		sel, err := root.Find(rq.Path)
		if err != nil {
			return fail(err)
		}
		if sel == nil {
			o.Kind = "ok"
			return o
		}
		var in node.Node
		if rq.Doc != "" {
			rd := &simio.Reader{Data: []byte(rq.Doc), Chunks: rq.Chunks, FailAt: -1, Log: log}
			if rq.Kind == "action-json" {
				in, err = nodeutil.ReadJSONIO(rd)
			} else {
				in, err = nodeutil.ReadXMLDoc(rd)
			}
			if err != nil {
				return fail(err)
			}
		}
		out, err := sel.Action(in)
		if err != nil {
			return fail(err)
		}
		if out != nil {
			if _, err := nodeutil.WriteJSON(out); err != nil {
				return fail(err)
			}
		}
	case "setvalue":
		sel, err := root.Find(rq.Path)
		if err != nil {
			return fail(err)
		}
		if sel == nil {
			o.Kind = "ok"
			return o
		}
		var v interface{}
		if err := json.Unmarshal(rq.Value, &v); err != nil {
			return fail(err)
		}
		if err := sel.SetValue(v); err != nil {
			return fail(err)
		}
	default:
		return fail(fmt.Errorf("unknown request kind %s", rq.Kind))
	}
	o.Kind = "ok"
	return o
}

// leafValues lists "path=value" for every leaf of a tree.
var leafSchema = map[string]*schema.Node{}

func leafValues(t *model.Tree, at string, out map[string]string) {
	for n, v := range t.Leaf {
		out[at+"/"+n] = v
		leafSchema[at+"/"+n] = t.S.Child(n)
	}
	for n, v := range t.LL {
		out[at+"/"+n] = strings.Join(v, "\x00")
	}
	for n, c := range t.Cont {
		leafValues(c, at+"/"+n, out)
	}
	for n, l := range t.List {
		for _, e := range l.Entries {
			// (key parts are quoted: parts that hold commas must not make two entries one path)
			leafValues(e, at+"/"+n+"="+fmt.Sprintf("%q", e.Key()), out)
		}
	}
}

// Run executes a session in this process.
func Run(s *Session) (out SessOutcome) {
	out.ID = s.ID
	s.Schema.Link()
	s.Init.Bind(s.Schema)
	env, err := sess.Compile(s.Schema)
	if err != nil {
		out.Err = err.Error()
		return
	}
	st, err := store.New(s.Store)
	if err != nil {
		out.Err = err.Error()
		return
	}
	if err := st.Load(s.Schema, s.Init); err != nil {
		out.Err = err.Error()
		return
	}
	if c, ok := st.(*store.Ctl); ok {
		c.Lenient = true
	}
	log := kit.NewLog(0)
	budget := s.Budget
	if budget <= 0 {
		budget = 5_000_000
	}
	for i := range s.Requests {
		rq := &s.Requests[i]
		before, werr := st.Walk()
		if werr != nil {
			out.Err = "store unreadable before request: " + werr.Error()
			return
		}
		zzverifrt.ResetSteps(budget)
		o := exec(env, st, rq, log)
		zzverifrt.ResetSteps(0)
		log.Add("req %d %s %s -> %s", i, rq.Kind, rq.Damage, o.Kind)
		// ---- oracles beyond panic/budget
		after, werr := st.Walk()
		switch {
		case werr != nil:
			o.Problem = "after the request the store's Go value is not a well-formed tree: " + werr.Error()
			o.ProblemK = "store-garbage-after:" + rq.Kind
		case !isEdit(rq.Kind):
			if d := model.Diff(before, after, false); d != "" {
				o.Problem = "a read changed the store: " + d
				o.ProblemK = "read-changed-store:" + rq.Kind
			}
		case o.Kind != "ok":
			// rejected (or crashed) edit: everything stored before stays readable, and every
			// leaf that existed is unchanged or holds a value the request carries
			if _, err := sess.Export(env, st); err != nil {
				o.Problem = "after a rejected request the store cannot be exported any more: " + err.Error()
				o.ProblemK = "store-unreadable-after-rejected:" + rq.Kind
				break
			}
			bl, al := map[string]string{}, map[string]string{}
			leafValues(before, "", bl)
			leafValues(after, "", al)
			for p, v := range bl {
				nv, ok := al[p]
				if ok && nv == v {
					continue
				}
				carried := ok
				text := carriedText(rq)
				if sn := leafSchema[p]; sn != nil && (sn.Type == "enum" || sn.Type == "bits") && numRe.MatchString(text) {
					// an enumeration may be given by value, bits by their positions
					nv = "0"
				}
				// XML normalises line ends; compare modulo white space
				ws := strings.NewReplacer("\r", " ", "\n", " ", "\t", " ")
				nv = ws.Replace(nv)
				text = ws.Replace(text)
				for _, part := range strings.Split(nv, "\x00") {
					if !strings.Contains(text, part) && !numberCarried(part, text) {
						carried = false
					}
					// whether a number in the document converts exactly is another
					// property's business (value conversion); any number will do here
					if _, err := strconv.ParseFloat(part, 64); err == nil && numRe.MatchString(text) {
						carried = true
					}
					// a value the library derived from the request by printing it (an
					// array given for a string leaf becomes "[a map[]]") still shares
					// its tokens with the request
					for _, tok := range alnumRe.FindAllString(part, -1) {
						if strings.Contains(text, tok) {
							carried = true
						}
					}
				}
				if ok && !carried {
					o.Problem = fmt.Sprintf("after a rejected request %s holds %q: neither the old value %q nor anything the request carries", p, nv, v)
					o.ProblemK = "rejected-request-left-garbage:" + rq.Kind
					break
				}
			}
		}
		if o.Problem == "" && rq.MustReject && o.Kind == "ok" && o.Err == "" {
			o.Problem = fmt.Sprintf("the document's shape disagrees with the schema (%s) and the request was accepted", rq.Damage)
			o.ProblemK = "shape-mismatch-accepted:" + rq.Kind + ":" + rq.Damage
		}
		if o.Problem == "" && (rq.Kind == "edit-json" || rq.Kind == "edit-xml") && rq.Inside && o.Kind == "ok" && o.Err == "" {
			o.Problem = fmt.Sprintf("the document was cut or failed strictly inside (%s) and the request was accepted", rq.Damage)
			o.ProblemK = "truncated-document-accepted:" + rq.Kind
		}
		out.Outcomes = append(out.Outcomes, o)
	}
	out.LogHash = log.HashHex()
	return
}

// EscapeQuery is a helper for generators.
func EscapeQuery(s string) string { return url.QueryEscape(s) }

var alnumRe = regexp.MustCompile(`[A-Za-z0-9]+`)

var numRe = regexp.MustCompile(`-?[0-9]+(?:\.[0-9]+)?(?:[eE][+-]?[0-9]+)?`)

// numberCarried: the stored number equals, as float64, a number of the
// document (whether a conversion is exact is another property's business).
func numberCarried(stored, doc string) bool {
	f, err := strconv.ParseFloat(stored, 64)
	if err != nil {
		return false
	}
	for _, m := range numRe.FindAllString(doc, -1) {
		if g, err := strconv.ParseFloat(m, 64); err == nil && g == f {
			return true
		}
	}
	return false
}

var uEsc = regexp.MustCompile(`\\u[0-9a-fA-F]{4}`)

// carriedText is everything the request carries, raw and with the escapes of
// JSON and XML undone (a stored value is the decoded text).
func carriedText(rq *Request) string {
	raw := rq.Doc + " " + string(rq.Value)
	dec := uEsc.ReplaceAllStringFunc(raw, func(m string) string {
		n, err := strconv.ParseUint(m[2:], 16, 32)
		if err != nil {
			return m
		}
		return string(rune(n))
	})
	dec = strings.NewReplacer(`\"`, `"`, `\\`, `\`, `\n`, "\n", `\t`, "\t", `\r`, "\r", `\/`, "/", `\b`, "\b", `\f`, "\f").Replace(dec)
	x := html.UnescapeString(raw)
	return raw + " " + dec + " " + x
}
