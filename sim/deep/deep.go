// Package deep computes a structural hash of an arbitrary Go object graph,
// including unexported fields (read through unsafe), cycle-safe. Pointers are
// identified by the order in which the walk first meets them, never by
// address, so two snapshots of an unchanged graph hash equal and any mutation
// of any reachable field changes the hash. Values of types outside the given
// package prefix are descended into as well, except for a few opaque runtime
// types that are hashed by identity (same process, same object).
package deep

import (
	"fmt"
	"reflect"
	"sort"
	"sync"
	"unsafe"
)

type hasher struct {
	h     uint64
	seen  map[unsafe.Pointer]int
	nodes int
	limit int
}

func (x *hasher) mix(v uint64) {
	x.h ^= v
	x.h *= 1099511628211
}

func (x *hasher) str(s string) {
	for i := 0; i < len(s); i++ {
		x.h ^= uint64(s[i])
		x.h *= 1099511628211
	}
	x.mix(0xff)
}

// Hash returns the structural hash of v and the number of nodes visited.
func Hash(v interface{}) (uint64, int) {
	x := &hasher{h: 14695981039346656037, seen: map[unsafe.Pointer]int{}, limit: 5_000_000}
	x.value(reflect.ValueOf(v), 0)
	return x.h, x.nodes
}

// opaque types are hashed by identity only.
func opaque(t reflect.Type) bool {
	switch t.String() {
	case "regexp.Regexp", "sync.Mutex", "sync.RWMutex", "sync.Once", "log.Logger", "os.File", "sync.Pool":
		return true
	}
	return false
}

func access(v reflect.Value) reflect.Value {
	if v.CanInterface() || !v.CanAddr() {
		return v
	}
	return reflect.NewAt(v.Type(), unsafe.Pointer(v.UnsafeAddr())).Elem()
}

func (x *hasher) value(v reflect.Value, depth int) {
	x.nodes++
	if x.nodes > x.limit || depth > 10000 {
		x.str("<limit>")
		return
	}
	if !v.IsValid() {
		x.str("<invalid>")
		return
	}
	switch v.Kind() {
	case reflect.Bool:
		if v.Bool() {
			x.mix(1)
		} else {
			x.mix(2)
		}
	case reflect.Int, reflect.Int8, reflect.Int16, reflect.Int32, reflect.Int64:
		x.mix(uint64(v.Int()))
	case reflect.Uint, reflect.Uint8, reflect.Uint16, reflect.Uint32, reflect.Uint64, reflect.Uintptr:
		x.mix(v.Uint())
	case reflect.Float32, reflect.Float64:
		x.str(fmt.Sprint(v.Float()))
	case reflect.Complex64, reflect.Complex128:
		x.str(fmt.Sprint(v.Complex()))
	case reflect.String:
		x.str(v.String())
	case reflect.Ptr:
		if v.IsNil() {
			x.str("nil")
			return
		}
		p := unsafe.Pointer(v.Pointer())
		if id, ok := x.seen[p]; ok {
			x.mix(uint64(id) + 0x100000)
			return
		}
		x.seen[p] = len(x.seen)
		x.str("&" + v.Type().Elem().String())
		if opaque(v.Type().Elem()) {
			return
		}
		x.value(v.Elem(), depth+1)
	case reflect.Interface:
		if v.IsNil() {
			x.str("nil-iface")
			return
		}
		e := v.Elem()
		x.str("iface:" + e.Type().String())
		x.value(e, depth+1)
	case reflect.Struct:
		x.str("struct:" + v.Type().String())
		if v.Type().String() == "sync.Map" && v.CanAddr() {
			// content, not identity: a process-wide registry kept in a sync.Map is state
			m := (*sync.Map)(unsafe.Pointer(v.UnsafeAddr()))
			type kv struct {
				k, v interface{}
				ord  string
			}
			var items []kv
			m.Range(func(k, val interface{}) bool {
				items = append(items, kv{k, val, keyOrder(reflect.ValueOf(k))})
				return true
			})
			sort.SliceStable(items, func(i, j int) bool { return items[i].ord < items[j].ord })
			x.mix(uint64(len(items)))
			for _, it := range items {
				x.value(reflect.ValueOf(it.k), depth+1)
				x.value(reflect.ValueOf(it.v), depth+1)
			}
			return
		}
		if opaque(v.Type()) {
			return
		}
		// make the struct addressable so unexported fields can be read
		if !v.CanAddr() {
			c := reflect.New(v.Type()).Elem()
			c.Set(safe(v))
			v = c
		}
		for i := 0; i < v.NumField(); i++ {
			x.value(access(v.Field(i)), depth+1)
		}
	case reflect.Slice:
		if v.IsNil() {
			x.str("nil-slice")
			return
		}
		x.mix(uint64(v.Len()))
		for i := 0; i < v.Len(); i++ {
			x.value(access(v.Index(i)), depth+1)
		}
	case reflect.Array:
		for i := 0; i < v.Len(); i++ {
			x.value(access(v.Index(i)), depth+1)
		}
	case reflect.Map:
		if v.IsNil() {
			x.str("nil-map")
			return
		}
		p := unsafe.Pointer(v.Pointer())
		if id, ok := x.seen[p]; ok {
			x.mix(uint64(id) + 0x200000)
			return
		}
		x.seen[p] = len(x.seen)
		x.mix(uint64(v.Len()))
		// order-independent but content-sensitive: hash each entry with a
		// sub-walk that shares the seen table, in the order of the keys' own
		// printed form when they are basic, else in the order of key sub-hashes
		keys := v.MapKeys()
		type kv struct {
			k   reflect.Value
			ord string
		}
		items := make([]kv, len(keys))
		for i, k := range keys {
			items[i] = kv{k, keyOrder(k)}
		}
		sort.SliceStable(items, func(i, j int) bool { return items[i].ord < items[j].ord })
		for _, it := range items {
			x.value(it.k, depth+1)
			x.value(v.MapIndex(it.k), depth+1)
		}
	case reflect.Func:
		if v.IsNil() {
			x.str("nil-func")
		} else {
			x.str("func")
		}
	case reflect.Chan:
		if v.IsNil() {
			x.str("nil-chan")
		} else {
			x.str("chan")
		}
	case reflect.UnsafePointer:
		x.str("unsafe")
	default:
		x.str("?" + v.Kind().String())
	}
}

func safe(v reflect.Value) reflect.Value {
	if v.CanInterface() {
		return v
	}
	// a non-addressable value obtained from an unexported field: copy through
	// an addressable temporary is not possible without Interface(); callers
	// reach such values only through access(), which is addressable, so this
	// is the exported case in practice
	return v
}

func keyOrder(k reflect.Value) string {
	for k.Kind() == reflect.Interface && !k.IsNil() {
		k = k.Elem()
	}
	switch k.Kind() {
	case reflect.String:
		return "s:" + k.String()
	case reflect.Int, reflect.Int8, reflect.Int16, reflect.Int32, reflect.Int64:
		return fmt.Sprintf("i:%020d", k.Int()+1<<62)
	case reflect.Uint, reflect.Uint8, reflect.Uint16, reflect.Uint32, reflect.Uint64:
		return fmt.Sprintf("u:%020d", k.Uint())
	case reflect.Ptr:
		// pointer-keyed maps (e.g. map[meta.Definition]handler): order by the
		// pointee's own structural hash
		h, _ := Hash(k.Interface())
		return fmt.Sprintf("p:%020d", h)
	}
	if k.CanInterface() {
		return fmt.Sprintf("x:%v", k.Interface())
	}
	return "x"
}
