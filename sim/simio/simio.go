// Package simio holds the simulated byte streams: seams S2 (request bodies
// read by the JSON/XML readers) and S3 (the stream behind the writers).
package simio

import (
	"errors"
	"io"

	"verif/sim/kit"
)

var ErrStream = errors.New("injected-stream-fault")

// Writer accepts bytes until the byte at offset FailAt would be written.
type Writer struct {
	FailAt int    // offset of the first byte that cannot be written; <0: never
	Kind   string // "error": (n, ErrStream); "short": (n, nil) with n < len(p)
	Log    *kit.Log

	Accepted        []byte
	Calls           []int // size of every Write call seen
	Failed          bool
	FailedCall      int
	WritesAfterFail int
}

func (w *Writer) Write(p []byte) (int, error) {
	w.Calls = append(w.Calls, len(p))
	if w.Failed {
		w.WritesAfterFail++
		w.Log.Add("write(%d) after failure", len(p))
		return 0, ErrStream
	}
	off := len(w.Accepted)
	if w.FailAt >= 0 && off+len(p) > w.FailAt {
		n := w.FailAt - off
		w.Accepted = append(w.Accepted, p[:n]...)
		w.Failed = true
		w.FailedCall = len(w.Calls) - 1
		w.Log.Add("write(%d) -> %d %s", len(p), n, w.Kind)
		if w.Kind == "short" {
			return n, nil
		}
		return n, ErrStream
	}
	w.Accepted = append(w.Accepted, p...)
	w.Log.Add("write(%d) ok", len(p))
	return len(p), nil
}

// Reader serves Data in seeded chunk sizes and can fail, end early or corrupt.
type Reader struct {
	Data   []byte
	Chunks []int  // sizes to serve, cycled; empty: as asked
	FailAt int    // offset at which the fault strikes; <0 none
	Kind   string // "error" "eof" (truncate) "eof-with-data" ((n>0, io.EOF) on the last chunk)
	Log    *kit.Log

	off   int
	call  int
	Fired bool
}

func (r *Reader) Read(p []byte) (int, error) {
	if len(p) == 0 {
		return 0, nil
	}
	limit := len(r.Data)
	if r.FailAt >= 0 && r.FailAt < limit && (r.Kind == "error" || r.Kind == "eof") {
		limit = r.FailAt
	}
	if r.off >= limit {
		if r.FailAt >= 0 && r.Kind == "error" && limit == r.FailAt {
			r.Fired = true
			r.Log.Add("read -> error at %d", r.off)
			return 0, ErrStream
		}
		if r.FailAt >= 0 && r.Kind == "eof" && limit == r.FailAt {
			r.Fired = true
		}
		r.Log.Add("read -> EOF at %d", r.off)
		return 0, io.EOF
	}
	n := len(p)
	if len(r.Chunks) > 0 {
		c := r.Chunks[r.call%len(r.Chunks)]
		if c < n {
			n = c
		}
	}
	r.call++
	if r.off+n > limit {
		n = limit - r.off
	}
	copy(p, r.Data[r.off:r.off+n])
	r.off += n
	r.Log.Add("read(%d) -> %d", len(p), n)
	if r.Kind == "eof-with-data" && r.off >= len(r.Data) {
		return n, io.EOF
	}
	return n, nil
}
