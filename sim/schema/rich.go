package schema

import (
	"fmt"

	"verif/sim/kit"
)

// RichTypes are the leaf types of the "all leaf types" schemas used by the
// writer and request-damage checks.
var RichTypes = []string{"string", "int8", "int16", "int32", "int64", "uint8", "uint16", "uint32", "uint64",
	"decimal64", "boolean", "enum", "bits", "binary", "empty", "identityref", "union", "unione"}

var RichListTypes = []string{"string", "int32", "enum", "uint64", "boolean", "decimal64", "identityref", "union", "unione", "bits", "binary"}

type richGen struct {
	r   *kit.Rng
	seq int
	n   int
	max int
}

func (g *richGen) name(p string) string {
	g.seq++
	return fmt.Sprintf("%s%d", p, g.seq)
}

func (g *richGen) leaf(mod string, typ string) *Node {
	g.n++
	l := &Node{Kind: Leaf, Name: g.name("f"), Type: typ, Module: mod}
	switch typ {
	case "enum":
		l.Enums = enumSets[g.r.Intn(len(enumSets))]
	case "bits":
		l.Bits = []string{"b0", "b1", "b2", "b3"}
	}
	return l
}

func (g *richGen) fill(p *Node, depth, maxDepth int, mod string) {
	n := g.r.Range(2, 6)
	for i := 0; i < n && g.n < g.max; i++ {
		x := g.r.Intn(14)
		switch {
		case x == 13 && depth < maxDepth:
			// a choice: its members' names are qualified by comparing with the node
			// that holds the data (the choice and case are not part of the data path)
			p.Children = append(p.Children, g.choice(depth, maxDepth, mod))
		case x < 6:
			p.Children = append(p.Children, g.leaf(mod, RichTypes[g.r.Intn(len(RichTypes))]))
		case x < 7:
			g.n++
			ll := &Node{Kind: LeafList, Name: g.name("ll"), Type: RichListTypes[g.r.Intn(len(RichListTypes))], Module: mod}
			if ll.Type == "enum" {
				ll.Enums = enumSets[g.r.Intn(len(enumSets))]
			}
			if ll.Type == "bits" {
				ll.Bits = []string{"b0", "b1", "b2", "b3"}
			}
			p.Children = append(p.Children, ll)
		case x < 9 && depth < maxDepth:
			g.n++
			c := &Node{Kind: Container, Name: g.name("c"), Module: mod}
			g.fill(c, depth+1, maxDepth, mod)
			p.Children = append(p.Children, c)
		case x < 11 && depth < maxDepth:
			g.n++
			l := &Node{Kind: List, Name: g.name("l"), Module: mod}
			k := &Node{Kind: Leaf, Name: g.name("k"), Type: g.r.Pick([]string{"string", "int32", "string"}), Module: mod}
			l.Keys = []string{k.Name}
			l.Children = append(l.Children, k)
			if g.r.Chance(1, 4) {
				k2 := &Node{Kind: Leaf, Name: g.name("k"), Type: "string", Module: mod}
				l.Keys = append(l.Keys, k2.Name)
				l.Children = append(l.Children, k2)
			}
			g.fill(l, depth+1, maxDepth, mod)
			p.Children = append(p.Children, l)
		case x == 11 && depth < maxDepth && mod == "":
			// a container defined by module g, possibly with main-module leaves augmented in
			g.n++
			c := &Node{Kind: Container, Name: g.name("c"), Module: "g"}
			g.fill(c, depth+1, maxDepth, "g")
			if g.r.Chance(1, 2) {
				c.Children = append(c.Children, g.leaf("", RichTypes[g.r.Intn(len(RichTypes))]))
			}
			if g.r.Chance(1, 3) {
				// a choice of the main module augmented into the container that g defines
				c.Children = append(c.Children, g.choice(depth+1, maxDepth, ""))
			}
			p.Children = append(p.Children, c)
		default:
			p.Children = append(p.Children, g.leaf(mod, RichTypes[g.r.Intn(len(RichTypes))]))
		}
	}
}

func (g *richGen) choice(depth, maxDepth int, mod string) *Node {
	g.n++
	ch := &Node{Kind: Choice, Name: g.name("ch"), Module: mod}
	for i := 0; i < g.r.Range(2, 3); i++ {
		cs := &Node{Kind: Case, Name: g.name("cs"), Module: mod}
		cs.Children = append(cs.Children, g.leaf(mod, RichTypes[g.r.Intn(len(RichTypes))]))
		if g.r.Chance(1, 2) {
			cs.Children = append(cs.Children, g.leaf(mod, RichTypes[g.r.Intn(len(RichTypes))]))
		}
		if depth+1 < maxDepth && g.r.Chance(1, 4) {
			g.n++
			c := &Node{Kind: Container, Name: g.name("c"), Module: mod}
			g.fill(c, maxDepth, maxDepth, mod) // leaves only: most of a schema stays outside choices
			cs.Children = append(cs.Children, c)
		}
		if depth+1 < maxDepth && g.r.Chance(1, 4) {
			// a list held by a case (a start selection whose schema parent is not its data parent)
			g.n++
			l := &Node{Kind: List, Name: g.name("l"), Module: mod}
			k := &Node{Kind: Leaf, Name: g.name("k"), Type: "string", Module: mod}
			l.Keys = []string{k.Name}
			l.Children = append(l.Children, k, g.leaf(mod, RichTypes[g.r.Intn(len(RichTypes))]))
			cs.Children = append(cs.Children, l)
		}
		ch.Children = append(ch.Children, cs)
	}
	return ch
}

// HostileEnums gives some enumeration leaves labels that need escaping in
// JSON (a backslash, a quote, a blank, a tab, markup, non-ASCII).
func HostileEnums(r *kit.Rng, m *Node) {
	m.Walk(func(x *Node) {
		if (x.Kind == Leaf || x.Kind == LeafList) && x.Type == "enum" && r.Chance(1, 2) {
			x.Enums = []string{"a\\b", "q\"q", "sp ace", "t\tb", "<&>", "é☃", "plain"}
		}
	})
}

// AddAnydata puts one to three anydata nodes into containers of the schema
// (only the writer check uses them: their value is arbitrary JSON, or a
// selection that the JSON writer renders with a nested writer of its own).
func AddAnydata(r *kit.Rng, m *Node) {
	var conts []*Node
	m.Walk(func(x *Node) {
		if x.Kind == Container || x.Kind == List {
			conts = append(conts, x)
		}
	})
	n := r.Range(1, 3)
	for i := 0; i < n && len(conts) > 0; i++ {
		c := conts[r.Intn(len(conts))]
		a := &Node{Kind: Leaf, Name: fmt.Sprintf("any%d", i), Type: "anydata", Module: c.Module, Parent: c}
		// somewhere among the siblings, not always last
		at := r.Intn(len(c.Children) + 1)
		if c.Kind == List && at < len(c.Keys) {
			at = len(c.Children)
		}
		c.Children = append(c.Children[:at:at], append([]*Node{a}, c.Children[at:]...)...)
	}
}

// GenerateRich draws a two-module schema (main + g) that uses every leaf type.
func GenerateRich(r *kit.Rng, name string, maxNodes, maxDepth int) *Node {
	g := &richGen{r: r, max: maxNodes}
	m := &Node{Kind: Module, Name: name, Rich: true}
	// one leaf of every type at the top so that every renderer runs in every schema
	top := &Node{Kind: Container, Name: g.name("c")}
	for _, t := range RichTypes {
		top.Children = append(top.Children, g.leaf("", t))
	}
	m.Children = append(m.Children, top)
	gc := &Node{Kind: Container, Name: g.name("c"), Module: "g"}
	gc.Children = append(gc.Children, g.leaf("g", "identityref"), g.leaf("g", "string"), g.leaf("", "identityref"), g.leaf("", "int32"))
	m.Children = append(m.Children, gc)
	// a top-level choice in every schema: one case holds a list, one a leaf and a container
	tch := &Node{Kind: Choice, Name: g.name("ch")}
	tl := &Node{Kind: List, Name: g.name("l")}
	tk := &Node{Kind: Leaf, Name: g.name("k"), Type: "string"}
	tl.Keys = []string{tk.Name}
	tl.Children = append(tl.Children, tk, g.leaf("", "int32"), g.leaf("", "string"))
	tc := &Node{Kind: Container, Name: g.name("c")}
	tc.Children = append(tc.Children, g.leaf("", "string"), g.leaf("", "enum"))
	tch.Children = append(tch.Children,
		&Node{Kind: Case, Name: g.name("cs"), Children: []*Node{tl}},
		&Node{Kind: Case, Name: g.name("cs"), Children: []*Node{g.leaf("", "boolean"), tc}})
	g.n += 4
	m.Children = append(m.Children, tch)
	g.fill(m, 0, maxDepth, "")
	m.Link()
	return m
}
