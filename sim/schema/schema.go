// Package schema is the harness's own description of a YANG data model: the
// generator builds one of these, emits YANG text from it for the library to
// compile, and the reference model and the stores are driven from it — never
// from the compiled meta tree, so that the oracle does not depend on the code
// under test.
package schema

import (
	"fmt"
	"strings"

	"verif/sim/kit"
)

type Kind int

const (
	Container Kind = iota
	List
	Leaf
	LeafList
	Choice
	Case
	Module
)

func (k Kind) String() string {
	return [...]string{"container", "list", "leaf", "leaf-list", "choice", "case", "module"}[k]
}

type Node struct {
	Kind      Kind     `json:"kind"`
	Name      string   `json:"name"`
	Type      string   `json:"type,omitempty"` // string int32 int64 boolean enum uint8 decimal64
	Enums     []string `json:"enums,omitempty"`
	Default   string   `json:"default,omitempty"`
	Keys      []string `json:"keys,omitempty"`
	Shorthand bool     `json:"shorthand,omitempty"` // case written without a 'case' statement
	Mandatory bool     `json:"mandatory,omitempty"` // choice: mandatory true
	UserOrder bool     `json:"userorder,omitempty"` // list: ordered-by user
	MapList   bool     `json:"maplist,omitempty"`   // struct stores: back this list by a Go map
	ValueList bool     `json:"valuelist,omitempty"` // struct-backed Reflect: a slice of struct values ([]T), not pointers
	When      string   `json:"when,omitempty"`      // when expression (only generated for the concurrent simulator's shared schema)
	ConvSlice bool     `json:"convslice,omitempty"` // struct-backed Reflect: leaf-list field of a convertible, not identical, element type ([]int for int32)
	Embed     bool     `json:"embed,omitempty"`     // struct-backed nodeutil.Node: the field lives in a struct embedded by value in the parent's struct (promoted field)
	Module    string   `json:"module,omitempty"`    // defining module when not the main one ("g")
	Bits      []string `json:"bits,omitempty"`
	Rich      bool     `json:"rich,omitempty"`      // module: emit the companion module g (identities, groupings)
	Actions   bool     `json:"actions,omitempty"`   // module: rpcs zzact (input aa, ab; output ob) and zznoin (no input; output ob), served by Go methods of the accessor-fixture store
	RpcMirror bool     `json:"rpcmirror,omitempty"` // module: the same definitions once more as input of rpc zzin
	Children  []*Node  `json:"children,omitempty"`
	// Group: this container is written as "uses <Group.ID>" of a grouping that a
	// sibling container uses too; what differs between the copies is written as
	// refine (defaults) and augment (an extra case of the grouping's choice), what
	// only this copy has (Group.Own) after the uses.
	Group *Group `json:"group,omitempty"`

	Parent *Node `json:"-"`
}

// Group describes how a container shares a grouping with its sibling copies.
type Group struct {
	ID    string            `json:"id"`
	First bool              `json:"first,omitempty"` // this copy writes the grouping statement
	Base  map[string]string `json:"base,omitempty"`  // default a leaf has in the grouping itself ("" none); a copy's different default is a refine
	Own   []string          `json:"own,omitempty"`   // children (and cases of the grouping's choice) that only this copy has
}

func (g *Group) own(name string) bool {
	for _, o := range g.Own {
		if o == name {
			return true
		}
	}
	return false
}

// Link sets Parent pointers (after JSON decoding or construction).
func (n *Node) Link() *Node {
	for _, c := range n.Children {
		c.Parent = n
		c.Link()
	}
	return n
}

func (n *Node) IsData() bool {
	return n.Kind == Container || n.Kind == List || n.Kind == Leaf || n.Kind == LeafList
}

func (n *Node) IsKey() bool {
	if n.Kind != Leaf || n.Parent == nil || n.Parent.Kind != List {
		return false
	}
	for _, k := range n.Parent.Keys {
		if k == n.Name {
			return true
		}
	}
	return false
}

// DataParent is the nearest container/list/module above (skipping choice/case).
func (n *Node) DataParent() *Node {
	p := n.Parent
	for p != nil && (p.Kind == Choice || p.Kind == Case) {
		p = p.Parent
	}
	return p
}

// DataChildren lists the data nodes directly below n in schema order, looking
// through choices and cases.
func (n *Node) DataChildren() []*Node {
	var out []*Node
	var walk func(x *Node)
	walk = func(x *Node) {
		for _, c := range x.Children {
			if c.Kind == Choice || c.Kind == Case {
				walk(c)
			} else {
				out = append(out, c)
			}
		}
	}
	walk(n)
	return out
}

func (n *Node) Child(name string) *Node {
	for _, c := range n.DataChildren() {
		if c.Name == name {
			return c
		}
	}
	return nil
}

// CaseChain returns, outermost first, the (choice, case) pairs between the
// data parent and n.
func (n *Node) CaseChain() [][2]*Node {
	var rev [][2]*Node
	p := n.Parent
	for p != nil && (p.Kind == Choice || p.Kind == Case) {
		if p.Kind == Case {
			rev = append(rev, [2]*Node{p.Parent, p})
		}
		p = p.Parent
	}
	out := make([][2]*Node, len(rev))
	for i := range rev {
		out[len(rev)-1-i] = rev[i]
	}
	return out
}

// Choices lists every choice directly below n (looking through cases for
// nested ones), with the data parent being n.
func (n *Node) Choices() []*Node {
	var out []*Node
	var walk func(x *Node)
	walk = func(x *Node) {
		for _, c := range x.Children {
			if c.Kind == Choice {
				out = append(out, c)
				walk(c)
			} else if c.Kind == Case {
				walk(c)
			}
		}
	}
	walk(n)
	return out
}

// DataUnder lists all data nodes (direct data children of the data parent)
// that belong to the subtree of a choice or case node.
func (n *Node) DataUnder() []*Node {
	return n.DataChildren()
}

func (n *Node) Path() string {
	if n.Parent == nil {
		return n.Name
	}
	return n.Parent.Path() + "/" + n.Name
}

// Walk visits n and every descendant.
func (n *Node) Walk(f func(*Node)) {
	f(n)
	for _, c := range n.Children {
		c.Walk(f)
	}
}

func (n *Node) Count() int {
	c := 0
	n.Walk(func(*Node) { c++ })
	return c
}

// ---------------------------------------------------------------- YANG text

func (n *Node) Yang() string {
	var b strings.Builder
	n.yang(&b, 0)
	return b.String()
}

func ind(b *strings.Builder, d int) { b.WriteString(strings.Repeat("  ", d)) }

// IdentModule says which module defines an identity of the rich schema.
func IdentModule(id string) string {
	if strings.HasPrefix(id, "idm") {
		return "m"
	}
	return "g"
}

// Idents are the identities derived from g:base0 in a rich schema.
var Idents = []string{"ida", "idb", "idm1", "idm2"}

// Modules returns the YANG text of every module of the schema keyed by module
// name; the first return value is the main module's name.
func (n *Node) Modules() (string, map[string]string) {
	out := map[string]string{n.Name: n.Yang()}
	if n.Rich {
		var b strings.Builder
		b.WriteString("module g {\n  namespace \"urn:verif:g\";\n  prefix g;\n  revision 2024-01-01;\n")
		b.WriteString("  identity base0;\n  identity ida { base base0; }\n  identity idb { base ida; }\n")
		n.Walk(func(x *Node) {
			if x.Kind == Container && x.Module == "g" && (x.Parent == nil || x.Parent.Module != "g") {
				fmt.Fprintf(&b, "  grouping grp_%s {\n", x.Name)
				x.yangBody(&b, 2, true)
				b.WriteString("  }\n")
			}
		})
		b.WriteString("}\n")
		out["g"] = b.String()
	}
	return n.Name, out
}

// yangBody emits n as a plain statement; inG restricts children to those
// defined in module g.
func (n *Node) yangBody(b *strings.Builder, d int, inG bool) {
	saved := n.Children
	if inG {
		var keep []*Node
		for _, c := range n.Children {
			if c.Module == "g" {
				keep = append(keep, c)
			}
		}
		n.Children = keep
	}
	m := n.Module
	n.Module = "g!" // suppress the uses rewrite for this node
	n.yang(b, d)
	n.Module = m
	n.Children = saved
}

func (n *Node) yang(b *strings.Builder, d int) {
	if n.Kind == Container && n.Module == "g" && (n.Parent == nil || !strings.HasPrefix(n.Parent.Module, "g")) {
		// defined by a grouping of module g, with main-module children added by a uses-augment
		ind(b, d)
		fmt.Fprintf(b, "uses g:grp_%s", n.Name)
		var extra []*Node
		for _, c := range n.Children {
			if c.Module != "g" {
				extra = append(extra, c)
			}
		}
		if len(extra) == 0 {
			b.WriteString(";\n")
			return
		}
		b.WriteString(" {\n")
		ind(b, d+1)
		fmt.Fprintf(b, "augment \"%s\" {\n", n.Name)
		for _, c := range extra {
			c.yang(b, d+2)
		}
		ind(b, d+1)
		b.WriteString("}\n")
		ind(b, d)
		b.WriteString("}\n")
		return
	}
	if n.Kind == Container && n.Group != nil {
		n.yangGrouped(b, d)
		return
	}
	if n.Kind == Case && n.Shorthand {
		// children written directly below the choice
		for _, c := range n.Children {
			c.yang(b, d)
		}
		return
	}
	ind(b, d)
	switch n.Kind {
	case Module:
		fmt.Fprintf(b, "module %s {\n", n.Name)
		ind(b, d+1)
		fmt.Fprintf(b, "namespace \"urn:verif:%s\";\n", n.Name)
		ind(b, d+1)
		fmt.Fprintf(b, "prefix %s;\n", n.Name)
		ind(b, d+1)
		b.WriteString("revision 2024-01-01;\n")
		if n.Rich {
			ind(b, d+1)
			b.WriteString("import g { prefix g; }\n")
			ind(b, d+1)
			b.WriteString("identity idm1 { base g:base0; }\n")
			ind(b, d+1)
			b.WriteString("identity idm2 { base g:ida; }\n")
		}
	case Container:
		fmt.Fprintf(b, "container %s {\n", n.Name)
	case List:
		fmt.Fprintf(b, "list %s {\n", n.Name)
		if len(n.Keys) > 0 {
			ind(b, d+1)
			fmt.Fprintf(b, "key \"%s\";\n", strings.Join(n.Keys, " "))
		}
		if n.UserOrder {
			ind(b, d+1)
			b.WriteString("ordered-by user;\n")
		}
	case Choice:
		fmt.Fprintf(b, "choice %s {\n", n.Name)
		if n.Default != "" {
			ind(b, d+1)
			fmt.Fprintf(b, "default %s;\n", n.Default)
		}
		if n.Mandatory {
			ind(b, d+1)
			b.WriteString("mandatory true;\n")
		}
	case Case:
		fmt.Fprintf(b, "case %s {\n", n.Name)
	case Leaf, LeafList:
		if n.Type == "anydata" {
			fmt.Fprintf(b, "anydata %s;\n", n.Name)
			return
		}
		fmt.Fprintf(b, "%s %s {\n", n.Kind, n.Name)
		ind(b, d+1)
		switch n.Type {
		case "enum":
			b.WriteString("type enumeration {\n")
			for _, e := range n.Enums {
				ind(b, d+2)
				fmt.Fprintf(b, "enum %s;\n", yangArg(e))
			}
			ind(b, d+1)
			b.WriteString("}\n")
		case "bits":
			b.WriteString("type bits {\n")
			for i, e := range n.Bits {
				ind(b, d+2)
				fmt.Fprintf(b, "bit %s { position %d; }\n", e, i)
			}
			ind(b, d+1)
			b.WriteString("}\n")
		case "decimal64x":
			b.WriteString("type decimal64 { fraction-digits 8; }\n")
		case "decimal64":
			b.WriteString("type decimal64 { fraction-digits 2; }\n")
		case "identityref":
			if n.Module == "g" {
				b.WriteString("type identityref { base base0; }\n")
			} else {
				b.WriteString("type identityref { base g:base0; }\n")
			}
		case "union":
			b.WriteString("type union { type int32; type string; }\n")
		case "unione":
			// members the value converter has no direct case for come first; their
			// labels and values are outside what the generator draws
			b.WriteString("type union { type enumeration { enum zzu1 { value 1000001; } enum zzu2 { value 1000002; } } type int32; type string; }\n")
		default:
			fmt.Fprintf(b, "type %s;\n", n.Type)
		}
		if n.Default != "" {
			ind(b, d+1)
			fmt.Fprintf(b, "default \"%s\";\n", n.Default)
		}
		if n.When != "" {
			ind(b, d+1)
			fmt.Fprintf(b, "when \"%s\";\n", n.When)
		}
	}
	for _, c := range n.Children {
		c.yang(b, d+1)
	}
	if n.Kind == Module && n.Actions {
		ind(b, d+1)
		b.WriteString("rpc zzact { input { leaf aa { type string; } leaf ab { type int32; } } output { leaf ob { type string; } leaf oc { type int32; } } }\n")
		ind(b, d+1)
		b.WriteString("rpc zznoin { output { leaf ob { type string; } } }\n")
	}
	if n.Kind == Module && n.RpcMirror {
		// the same data definitions once more as the input of an rpc
		ind(b, d+1)
		b.WriteString("rpc zzin {\n")
		ind(b, d+2)
		b.WriteString("input {\n")
		for _, c := range n.Children {
			c.yang(b, d+3)
		}
		ind(b, d+2)
		b.WriteString("}\n")
		ind(b, d+1)
		b.WriteString("}\n")
	}
	ind(b, d)
	b.WriteString("}\n")
}

// yangGrouped writes a container whose content comes from a shared grouping.
func (n *Node) yangGrouped(b *strings.Builder, d int) {
	g := n.Group
	if g.First {
		ind(b, d)
		fmt.Fprintf(b, "grouping %s {\n", g.ID)
		for _, c := range n.Children {
			if g.own(c.Name) {
				continue
			}
			cp := *c
			if c.Kind == Leaf {
				cp.Default = g.Base[c.Name]
			}
			if c.Kind == Choice {
				cp.Children = nil
				for _, cs := range c.Children {
					if !g.own(cs.Name) {
						cp.Children = append(cp.Children, cs)
					}
				}
			}
			cp.yang(b, d+1)
		}
		ind(b, d)
		b.WriteString("}\n")
	}
	ind(b, d)
	fmt.Fprintf(b, "container %s {\n", n.Name)
	ind(b, d+1)
	fmt.Fprintf(b, "uses %s {\n", g.ID)
	for _, c := range n.Children {
		if g.own(c.Name) {
			continue
		}
		if c.Kind == Leaf && c.Default != g.Base[c.Name] && c.Default != "" {
			ind(b, d+2)
			fmt.Fprintf(b, "refine %s { default \"%s\"; }\n", c.Name, c.Default)
		}
		if c.Kind == Choice {
			for _, cs := range c.Children {
				if g.own(cs.Name) {
					ind(b, d+2)
					fmt.Fprintf(b, "augment %s {\n", c.Name)
					cs.yang(b, d+3)
					ind(b, d+2)
					b.WriteString("}\n")
				}
			}
		}
	}
	ind(b, d+1)
	b.WriteString("}\n")
	for _, c := range n.Children {
		if g.own(c.Name) && c.Kind != Case {
			c.yang(b, d+1)
		}
	}
	ind(b, d)
	b.WriteString("}\n")
}

// groupedPair builds two or three sibling containers that use one grouping:
// the same leaves (one with a default refined differently in every copy, one
// that inherits the grouping's default in the first copy only), a leaf-list,
// and - where the store detects cases - a choice of three or five cases that
// every copy extends by a case of its own; one copy also has a leaf of its own.
func (g *gen) groupedPair() []*Node {
	id := g.name("grp")
	f1, f2, f3, ll := g.name("f"), g.name("f"), g.name("f"), g.name("ll")
	var chName string
	var caseNames, caseLeaves []string
	if g.caps.Choices {
		chName = g.name("ch")
		for i := 0; i < g.r.Pick3(3, 5, 3); i++ {
			caseNames = append(caseNames, g.name("cs"))
			caseLeaves = append(caseLeaves, g.name("f"))
		}
	}
	base := map[string]string{f1: "", f2: "5", f3: ""}
	if !g.caps.Defaults {
		base = map[string]string{f1: "", f2: "", f3: ""}
	}
	var out []*Node
	n := g.r.Range(2, 3)
	for i := 0; i < n; i++ {
		g.n += 4
		c := &Node{Kind: Container, Name: g.name("c"), Group: &Group{ID: id, First: i == 0, Base: base}}
		l1 := &Node{Kind: Leaf, Name: f1, Type: "string"}
		l2 := &Node{Kind: Leaf, Name: f2, Type: "int32", Default: base[f2]}
		l3 := &Node{Kind: Leaf, Name: f3, Type: "string"}
		if g.caps.Defaults {
			l1.Default = fmt.Sprintf("d%d", i)
			if i > 0 {
				l2.Default = fmt.Sprint(9 + i)
			}
		}
		c.Children = append(c.Children, l1, l2, l3)
		if g.caps.LeafLists {
			c.Children = append(c.Children, &Node{Kind: LeafList, Name: ll, Type: "string"})
		}
		if chName != "" {
			ch := &Node{Kind: Choice, Name: chName}
			for k := range caseNames {
				ch.Children = append(ch.Children, &Node{Kind: Case, Name: caseNames[k], Children: []*Node{{Kind: Leaf, Name: caseLeaves[k], Type: "string"}}})
			}
			own := &Node{Kind: Case, Name: g.name("cs"), Children: []*Node{{Kind: Leaf, Name: g.name("f"), Type: "string"}}}
			ch.Children = append(ch.Children, own)
			c.Group.Own = append(c.Group.Own, own.Name)
			c.Children = append(c.Children, ch)
		}
		if i == n-1 {
			x := &Node{Kind: Leaf, Name: g.name("f"), Type: "string"}
			c.Group.Own = append(c.Group.Own, x.Name)
			c.Children = append(c.Children, x)
		}
		out = append(out, c)
	}
	return out
}

// ---------------------------------------------------------------- generator

// Caps says what the store under test can represent, so that a generated
// schema is one the store is documented to handle.
type Caps struct {
	Choices        bool
	CompoundKeys   bool
	IntKeys        bool
	Bools          bool // false for struct stores that cannot tell false from unset
	LeafLists      bool
	MapLists       bool // struct stores: some lists are Go maps
	MaxDepth       int
	MaxNodes       int
	Defaults       bool
	ListsInLists   bool
	Int64          bool
	NoEnums        bool     // struct-backed Reflect cannot read an unset string-typed enum field
	ValueLists     bool     // some slice lists hold struct values instead of pointers
	ChoiceDefaults bool     // choices may name a default case
	Embeds         bool     // struct-backed nodeutil.Node: some fields are promoted from an embedded struct
	ConvSlices     bool     // some int32 leaf-lists are []int64 fields
	TypedMaps      bool     // a container whose leaves all have one scalar type is held in a Go map of that element type
	Groupings      bool     // some sibling containers share one grouping (refined defaults, augmented cases)
	KeyTypes       []string // further key leaf types (besides string and, with IntKeys, int32)
	NoPlainLeaves  bool     // leaves only as list keys (a store that cannot tell a zero scalar from an unset one and does not ignore zeros)
	Fixture        *Node    // the store holds fixed Go types: schemas are seeded sub-schemas of this one
}

func FullCaps() Caps {
	return Caps{Choices: true, CompoundKeys: true, IntKeys: true, Bools: true, LeafLists: true,
		MaxDepth: 3, MaxNodes: 25, Defaults: true, ListsInLists: true, Int64: true, Groupings: true}
}

type gen struct {
	r    *kit.Rng
	caps Caps
	n    int
	seq  int
}

func (g *gen) name(prefix string) string {
	g.seq++
	return fmt.Sprintf("%s%d", prefix, g.seq)
}

var enumSets = [][]string{{"red", "green", "blue"}, {"on", "off"}, {"a", "b", "c", "d"}}

func (g *gen) leaf(key bool, keyInt bool) *Node {
	if !key && g.caps.NoPlainLeaves {
		return g.leafList()
	}
	g.n++
	l := &Node{Kind: Leaf, Name: g.name("f")}
	if key {
		l.Name = g.name("k")
		if keyInt {
			l.Type = "int32"
		} else {
			l.Type = "string"
		}
		if len(g.caps.KeyTypes) > 0 && g.r.Chance(1, 4) {
			// a less common key type the store is known to take
			l.Type = g.caps.KeyTypes[g.r.Intn(len(g.caps.KeyTypes))]
			if l.Type == "enum" {
				l.Enums = enumSets[g.r.Intn(len(enumSets))]
			}
		}
		return l
	}
	types := []string{"string", "int32", "enum", "string", "int32"}
	if g.caps.NoEnums {
		types = []string{"string", "int32", "string", "int32"}
	}
	if g.caps.Bools {
		types = append(types, "boolean")
	}
	if g.caps.Int64 {
		types = append(types, "int64")
	}
	l.Type = g.r.Pick(types)
	if l.Type == "enum" {
		l.Enums = enumSets[g.r.Intn(len(enumSets))]
	}
	if g.caps.Defaults && g.r.Chance(1, 3) {
		switch l.Type {
		case "string":
			l.Default = g.r.Pick([]string{"dflt", "zz", "d0"})
		case "int32", "int64":
			l.Default = fmt.Sprint(g.r.Range(1, 99))
		case "boolean":
			l.Default = "true"
		case "enum":
			l.Default = l.Enums[g.r.Intn(len(l.Enums))]
		}
	}
	return l
}

func (g *gen) leafList() *Node {
	g.n++
	ll := &Node{Kind: LeafList, Name: g.name("ll"), Type: g.r.Pick([]string{"string", "int32"})}
	if g.caps.ConvSlices && ll.Type == "int32" && g.r.Chance(1, 2) {
		ll.ConvSlice = true
	}
	return ll
}

func (g *gen) container(depth int, inList bool) *Node {
	g.n++
	c := &Node{Kind: Container, Name: g.name("c")}
	g.fill(c, depth, inList)
	return c
}

func (g *gen) list(depth int) *Node {
	g.n++
	l := &Node{Kind: List, Name: g.name("l")}
	nk := 1
	if g.caps.CompoundKeys && g.r.Chance(1, 3) {
		nk = 2
	}
	for i := 0; i < nk; i++ {
		k := g.leaf(true, g.caps.IntKeys && g.r.Chance(1, 3))
		l.Keys = append(l.Keys, k.Name)
		l.Children = append(l.Children, k)
	}
	if g.r.Chance(1, 3) {
		l.UserOrder = true
	}
	plainKey := l.Children[0].Type == "string" || l.Children[0].Type == "int32"
	if g.caps.MapLists && nk == 1 && plainKey && g.r.Chance(1, 2) {
		l.MapList = true
	} else if g.caps.ValueLists && g.r.Chance(1, 2) {
		l.ValueList = true
	}
	g.fill(l, depth, true)
	return l
}

func (g *gen) choice(depth int, inList bool) *Node {
	g.n++
	ch := &Node{Kind: Choice, Name: g.name("ch")}
	nc := g.r.Range(2, 3)
	for i := 0; i < nc; i++ {
		cs := &Node{Kind: Case, Name: g.name("cs")}
		// what the case holds
		switch g.r.Intn(9) {
		case 6, 7, 8:
			// 2-4 members of mixed kinds in random order (a container or list that is
			// absent may precede a member that is present)
			n := g.r.Range(2, 4)
			for k := 0; k < n; k++ {
				switch g.r.Intn(4) {
				case 0:
					cs.Children = append(cs.Children, g.container(depth+1, inList))
				case 1:
					if !inList || g.caps.ListsInLists {
						cs.Children = append(cs.Children, g.list(depth+1))
					} else {
						cs.Children = append(cs.Children, g.container(depth+1, inList))
					}
				case 2:
					if g.caps.LeafLists {
						cs.Children = append(cs.Children, g.leafList())
					} else {
						cs.Children = append(cs.Children, g.leaf(false, false))
					}
				default:
					cs.Children = append(cs.Children, g.leaf(false, false))
				}
			}
		case 0, 1:
			cs.Children = append(cs.Children, g.leaf(false, false))
			if g.r.Chance(1, 2) {
				cs.Children = append(cs.Children, g.leaf(false, false))
			}
		case 2:
			cs.Children = append(cs.Children, g.container(depth+1, inList))
		case 3:
			if !inList || g.caps.ListsInLists {
				cs.Children = append(cs.Children, g.list(depth+1))
			} else {
				cs.Children = append(cs.Children, g.leaf(false, false))
			}
		case 4:
			cs.Children = append(cs.Children, g.leaf(false, false))
			if depth < g.caps.MaxDepth && g.r.Chance(1, 2) {
				cs.Children = append(cs.Children, g.choice(depth+1, inList))
			} else if g.caps.LeafLists {
				cs.Children = append(cs.Children, g.leafList())
			}
		case 5:
			cs.Children = append(cs.Children, g.leaf(false, false))
			cs.Children = append(cs.Children, g.container(depth+1, inList))
		}
		// shorthand: exactly one data child and not a choice
		if len(cs.Children) == 1 && cs.Children[0].Kind != Choice && g.r.Chance(1, 3) {
			cs.Shorthand = true
			cs.Name = cs.Children[0].Name
		}
		// defaults inside cases would select a case implicitly; keep cases default-free
		cs.Walk(func(x *Node) {
			if x.Kind == Leaf && x.DataParentIs(cs) {
				x.Default = ""
			}
		})
		ch.Children = append(ch.Children, cs)
	}
	if g.caps.ChoiceDefaults && g.r.Chance(1, 3) {
		// a default case (its leaves carry no defaults, so nothing is implied by it)
		ch.Default = ch.Children[g.r.Intn(len(ch.Children))].Name
	} else if g.caps.ChoiceDefaults && g.r.Chance(1, 3) {
		ch.Mandatory = true
	}
	return ch
}

// deepChoice nests choices levels deep: every case holds a leaf and, in one
// case per level, the next choice (switching the innermost case must clear
// nothing above it; switching an outer case must clear everything below).
func (g *gen) deepChoice(levels int) *Node {
	g.n++
	ch := &Node{Kind: Choice, Name: g.name("ch")}
	nc := g.r.Range(2, 3)
	inner := g.r.Intn(nc)
	for i := 0; i < nc; i++ {
		cs := &Node{Kind: Case, Name: g.name("cs")}
		l := g.leaf(false, false)
		l.Default = ""
		cs.Children = append(cs.Children, l)
		if i == inner && levels > 1 {
			cs.Children = append(cs.Children, g.deepChoice(levels-1))
		}
		ch.Children = append(ch.Children, cs)
	}
	return ch
}

// DataParentIs reports whether x lies in the case subtree cs without an
// intervening container or list (only meaningful before Link()).
func (x *Node) DataParentIs(cs *Node) bool {
	var found bool
	var walk func(n *Node) bool
	walk = func(n *Node) bool {
		for _, c := range n.Children {
			if c == x {
				return true
			}
			if c.Kind == Choice || c.Kind == Case {
				if walk(c) {
					return true
				}
			}
		}
		return false
	}
	found = walk(cs)
	return found
}

func (g *gen) fill(p *Node, depth int, inList bool) {
	n := g.r.Range(1, 4)
	for i := 0; i < n && g.n < g.caps.MaxNodes; i++ {
		x := g.r.Intn(10)
		switch {
		case x < 4:
			p.Children = append(p.Children, g.leaf(false, false))
		case x < 5 && g.caps.LeafLists:
			p.Children = append(p.Children, g.leafList())
		case x < 7 && depth < g.caps.MaxDepth:
			p.Children = append(p.Children, g.container(depth+1, inList))
		case x < 9 && depth < g.caps.MaxDepth && (!inList || g.caps.ListsInLists):
			p.Children = append(p.Children, g.list(depth+1))
		case x == 9 && g.caps.Choices && depth < g.caps.MaxDepth:
			p.Children = append(p.Children, g.choice(depth+1, inList))
		default:
			p.Children = append(p.Children, g.leaf(false, false))
		}
	}
	if g.caps.Embeds && g.r.Chance(1, 3) {
		for _, c := range p.Children {
			if c.Kind != Choice && !c.IsKeyOf(p) && g.r.Chance(2, 3) {
				c.Embed = true
			}
		}
	}
}

// IsKeyOf reports whether n is a key leaf of list l (usable before Link()).
func (n *Node) IsKeyOf(l *Node) bool {
	for _, k := range l.Keys {
		if k == n.Name {
			return true
		}
	}
	return false
}

// Generate draws a module from the stream. opts.mustChoice forces at least
// one choice, mustList at least one list.
func Generate(r *kit.Rng, caps Caps, name string, mustChoice, mustList bool) *Node {
	if caps.Fixture != nil {
		return subSchema(r, caps, name)
	}
	for {
		g := &gen{r: r, caps: caps}
		m := &Node{Kind: Module, Name: name}
		g.fill(m, 0, false)
		if mustChoice && caps.Choices {
			// a top-level container holding a choice and a list with a choice
			c := &Node{Kind: Container, Name: g.name("c")}
			c.Children = append(c.Children, g.leaf(false, false), g.choice(1, false))
			if g.r.Chance(1, 2) {
				c.Children = append(c.Children, g.choice(1, false))
			}
			if g.r.Chance(1, 3) {
				c.Children = append(c.Children, g.deepChoice(g.r.Range(3, 4)))
			}
			m.Children = append(m.Children, c)
			if caps.TypedMaps && g.r.Chance(1, 2) {
				// a container of leaves of one scalar type only (held in a typed Go map, where
				// false, 0 and "" are values like any other), the leaves being cases of a choice
				t := g.r.Pick([]string{"boolean", "int32", "string"})
				tc := &Node{Kind: Container, Name: g.name("c")}
				ch := &Node{Kind: Choice, Name: g.name("ch")}
				for i := 0; i < g.r.Range(2, 3); i++ {
					l := &Node{Kind: Leaf, Name: g.name("f"), Type: t}
					ch.Children = append(ch.Children, &Node{Kind: Case, Name: l.Name, Shorthand: true, Children: []*Node{l}})
				}
				tc.Children = append(tc.Children, &Node{Kind: Leaf, Name: g.name("f"), Type: t}, ch)
				g.n += 4
				m.Children = append(m.Children, tc)
			}
			if g.r.Chance(1, 2) {
				l := g.list(1)
				l.Children = append(l.Children, g.choice(2, true))
				m.Children = append(m.Children, l)
			}
		}
		if caps.Groupings && !caps.NoPlainLeaves && g.r.Chance(1, 3) {
			m.Children = append(m.Children, g.groupedPair()...)
		}
		if mustList {
			has := false
			m.Walk(func(x *Node) {
				if x.Kind == List {
					has = true
				}
			})
			if !has {
				m.Children = append(m.Children, g.list(1))
			}
		}
		m.Link()
		return m
	}
}

// AddWhens puts a when statement on some leaves, referring to an earlier
// sibling leaf (used by the concurrent simulator, whose oracles need no model
// of visibility).
func AddWhens(r *kit.Rng, m *Node) {
	m.Walk(func(p *Node) {
		if p.Kind != Container && p.Kind != List && p.Kind != Module {
			return
		}
		var prev *Node
		for _, c := range p.Children {
			if c.Kind != Leaf {
				continue
			}
			if prev != nil && !c.IsKey() && c.Default == "" && r.Chance(1, 3) {
				lit := "'zz'"
				if prev.Type == "int32" || prev.Type == "int64" {
					lit = "7"
				}
				op := r.Pick([]string{"!=", "=", "!="})
				if prev.Type == "string" || prev.Type == "int32" || prev.Type == "int64" {
					c.When = prev.Name + op + lit
				}
			}
			prev = c
		}
	})
}

// subSchema draws a sub-schema of caps.Fixture: every non-key member is
// dropped with a probability drawn per run; a choice survives with at least
// two cases; some leaves get a default.
func subSchema(r *kit.Rng, caps Caps, name string) *Node {
	drop := r.Pick3(0, 2, 4) // of 10
	var cp func(n *Node) *Node
	cp = func(n *Node) *Node {
		c := *n
		c.Parent = nil
		c.Children = nil
		for _, ch := range n.Children {
			isKey := false
			for _, k := range n.Keys {
				if k == ch.Name {
					isKey = true
				}
			}
			if ch.Kind == Choice && !caps.Choices {
				continue
			}
			if !isKey && ch.Kind != Case && r.Chance(drop, 10) {
				continue
			}
			x := cp(ch)
			if x.Kind == Case && len(x.Children) == 0 {
				continue
			}
			if x.Kind == Choice && len(x.Children) < 2 {
				continue
			}
			if x.Kind == Leaf && !isKey && caps.Defaults && r.Chance(1, 4) {
				inCase := n.Kind == Case
				if !inCase {
					switch x.Type {
					case "string":
						x.Default = r.Pick([]string{"dflt", "zz", "d0"})
					case "int32", "int64":
						x.Default = fmt.Sprint(r.Range(1, 99))
					case "enum":
						x.Default = x.Enums[r.Intn(len(x.Enums))]
					}
				}
			}
			c.Children = append(c.Children, x)
		}
		return &c
	}
	m := cp(caps.Fixture)
	m.Name = name
	return m.Link()
}

// yangArg writes a statement argument: bare when it is an identifier, else a
// double-quoted string with the escapes RFC 7950 6.1.3 defines.
func yangArg(a string) string {
	plain := a != ""
	for _, c := range a {
		if !(c >= 'a' && c <= 'z' || c >= 'A' && c <= 'Z' || c >= '0' && c <= '9' || c == '_' || c == '-' || c == '.') {
			plain = false
		}
	}
	if plain {
		return a
	}
	r := strings.NewReplacer("\\", "\\\\", "\"", "\\\"", "\t", "\\t", "\n", "\\n")
	return "\"" + r.Replace(a) + "\""
}
