//go:build verif

// Package sched is the concurrent simulator (E3): K client goroutines over
// the instrumented library, exactly one running at a time, the interleaving a
// pure function of the scenario's schedule. Built with -race; the hand-off
// lives in //go:norace code (zzverifrt), so the detector keeps the program's
// true happens-before relation and one scenario gives one set of reports.
package sched

import (
	"bytes"
	"encoding/json"
	"fmt"
	"github.com/freeconf/yang/source"
	"io"
	"os"
	"os/exec"
	"runtime"
	"sort"
	"strings"
	"sync"
	"time"

	"github.com/freeconf/yang/meta"
	"github.com/freeconf/yang/node"
	"github.com/freeconf/yang/nodeutil"
	"github.com/freeconf/yang/parser"
	"github.com/freeconf/yang/zzverifrt"

	"verif/sim/deep"
	"verif/sim/kit"
	"verif/sim/model"
	"verif/sim/schema"
	"verif/sim/sess"
	"verif/sim/store"
)

type Op struct {
	Kind  string            `json:"kind"` // load-set load-m export upsert find-write where json xml delete action
	Files map[string]string `json:"files,omitempty"`
	Main  string            `json:"main,omitempty"`
	Sess  *sess.Op          `json:"sess,omitempty"`
	Path  string            `json:"path,omitempty"`
	Query string            `json:"query,omitempty"`
	Cfg   int               `json:"cfg,omitempty"` // writer configuration bits
}

type Client struct {
	Store string      `json:"store"`
	Init  *model.Tree `json:"init"`
	Ops   []Op        `json:"ops"`
}

type Schedule struct {
	Mode    string `json:"mode"` // uniform pct free
	Seed    uint64 `json:"seed"`
	Quantum int    `json:"quantum"` // mean quantum (uniform)
	Changes int    `json:"changes"` // priority change points (pct)
	Horizon int    `json:"horizon"` // expected total yields (pct change-point placement)
}

type Scenario struct {
	Schema   *schema.Node `json:"schema"` // the shared module M
	Clients  []Client     `json:"clients"`
	Schedule Schedule     `json:"schedule"`
	Cold     bool         `json:"cold"` // clients start with nothing but M's compile behind them... cold: M is compiled by client 0's first op
	Procs    int          `json:"gomaxprocs"`
	// AloneOnly: no concurrency at all; every client's program runs by itself,
	// clients in REVERSE order, in this (fresh) process. A result that depends
	// on what ran before it in the process differs from the concurrent run.
	AloneOnly bool `json:"alone_only,omitempty"`
}

type Result struct {
	Together       [][]string     `json:"together"` // per client, per op: result text
	Alone          [][]string     `json:"alone"`
	AloneFresh     [][]string     `json:"alone_fresh,omitempty"` // from a separate fresh process, clients in reverse order
	Fingerprint    string         `json:"fingerprint"`
	Switches       int            `json:"switches"`
	Steps          int64          `json:"steps"`
	MHashBefore    uint64         `json:"m_hash_before"`
	MHashAfter     uint64         `json:"m_hash_after"`
	MNodes         int            `json:"m_nodes"`
	GlobalsDiff    []string       `json:"globals_changed,omitempty"`
	GlobalsDiffUse []string       `json:"globals_changed_by_use,omitempty"`
	Panics         []string       `json:"panics,omitempty"`
	SwitchSites    []string       `json:"switch_sites,omitempty"`
	Overlap        map[string]int `json:"overlap,omitempty"`
	Races          []Race         `json:"races,omitempty"`
	Stderr         string         `json:"stderr,omitempty"`
	Fatal          string         `json:"fatal,omitempty"`
	Err            string         `json:"err,omitempty"`
}

type Race struct {
	A    string `json:"a"` // top repo function of one access
	B    string `json:"b"` // ... of the other
	Text string `json:"text,omitempty"`
}

func (r Race) Key() string {
	x := []string{r.A, r.B}
	sort.Strings(x)
	return x[0] + " <-> " + x[1]
}

// ---------------------------------------------------------------- client programs

type clientState struct {
	env *sess.Env
	st  store.Store
	log []string
}

func opener(files map[string]string, main string) func(string, string) (io.Reader, error) {
	return func(name, ext string) (io.Reader, error) {
		if t, ok := files[name]; ok {
			return strings.NewReader(t), nil
		}
		return nil, nil
	}
}

func runOp(cs *clientState, op *Op) (res string) {
	defer func() {
		if p := recover(); p != nil {
			if _, ok := p.(zzverifrt.BudgetExceeded); ok {
				panic(p)
			}
			res = fmt.Sprintf("PANIC %v at %s", p, sess.TopRepoFrame())
		}
	}()
	switch op.Kind {
	case "load-set", "load-m":
		tl := time.Now()
		op0 := opener(op.Files, op.Main)
		if op.Cfg%2 == 1 {
			// through source.Cached with a cache of this load's own (an in-memory Cacher)
			op0 = source.Cached(op0, &memCache{m: map[string][]byte{}})
		}
		m, err := parser.LoadModule(op0, op.Main)
		if err != nil {
			return "error: " + err.Error()
		}
		tm := time.Now()
		// structural hash incl. unexported fields: cheaper under -race than the
		// accessor walk (no reflective method calls) and at least as sensitive
		h, nodes := deep.Hash(m)
		if os.Getenv("VERIF_DEBUG") != "" {
			fmt.Fprintf(os.Stderr, "load %v hash %v nodes %d\n", tm.Sub(tl), time.Since(tm), nodes)
		}
		return fmt.Sprintf("module %s hash=%016x nodes=%d", m.Ident(), h, nodes)
	case "export":
		t, err := sess.Export(cs.env, cs.st)
		if err != nil {
			return "error: " + err.Error()
		}
		return t.String()
	case "upsert", "delete":
		r := sess.Exec(cs.env, cs.st, *op.Sess, nil, nil)
		w, werr := cs.st.Walk()
		if werr != nil {
			return fmt.Sprintf("err=%v walk-error=%v", r.Err, werr)
		}
		return fmt.Sprintf("err=%v panic=%v notfound=%v store=%s", r.Err, r.Panic, r.NotFound, w.String())
	case "action":
		// an rpc of the shared module, served by a Go method of this client's own store object
		b := node.NewBrowser(cs.env.Mod, cs.st.Root())
		sel, err := b.Root().Find(op.Path)
		if err != nil || sel == nil {
			return fmt.Sprintf("find rpc: %v", err)
		}
		var in node.Node
		if op.Query != "" {
			if in, err = nodeutil.ReadJSON(op.Query); err != nil {
				return "input: " + err.Error()
			}
		}
		out, err := sel.Action(in)
		if err != nil {
			return "action error: " + err.Error()
		}
		if out == nil {
			return "action: no output"
		}
		js, err := nodeutil.WriteJSON(out)
		return fmt.Sprintf("err=%v %s", err, js)
	case "find-write", "where", "json", "xml":
		b := node.NewBrowser(cs.env.Mod, cs.st.Root())
		sel := b.Root()
		var err error
		if op.Path != "" || op.Query != "" {
			p := op.Path
			if op.Query != "" {
				p += "?" + op.Query
			}
			sel, err = sel.Find(p)
			if err != nil {
				return "find error: " + err.Error()
			}
			if sel == nil {
				return "find: nil"
			}
		}
		if op.Kind == "xml" {
			s, err := nodeutil.WriteXMLDoc(sel, op.Cfg&1 != 0)
			return fmt.Sprintf("err=%v %s", err, s)
		}
		w := nodeutil.JSONWtr{Pretty: op.Cfg&1 != 0, EnumAsIds: op.Cfg&2 != 0, QualifyNamespace: op.Cfg&4 != 0}
		s, err := w.JSON(sel)
		return fmt.Sprintf("err=%v %s", err, s)
	}
	return "unknown op " + op.Kind
}

func newClient(env *sess.Env, s *schema.Node, c *Client) (*clientState, error) {
	st, err := store.New(c.Store)
	if err != nil {
		return nil, err
	}
	if err := st.Load(s, c.Init); err != nil {
		return nil, err
	}
	return &clientState{env: env, st: st}, nil
}

// ---------------------------------------------------------------- scheduler

// globalsSnapshot hashes every package-level variable of the instrumented
// packages (addresses registered by generated code).
func globalsSnapshot() map[string]uint64 {
	out := map[string]uint64{}
	for name, addr := range zzverifrt.Globals {
		if skipGlobal(name) {
			continue
		}
		h, _ := deep.Hash(addr)
		out[name] = h
	}
	return out
}

// skipGlobal: the parser's generated debug tables are constant data that the
// hash walks at length; loggers are written to on purpose.
func skipGlobal(name string) bool {
	switch {
	case strings.HasPrefix(name, "parser.yy"), strings.HasPrefix(name, "xpath.yy"):
		return true
	}
	return false
}

func diffGlobals(a, b map[string]uint64) []string {
	var out []string
	for k, v := range a {
		if b[k] != v {
			out = append(out, k)
		}
	}
	sort.Strings(out)
	return out
}

// Run executes a scenario in this process (worker side).
func Run(sc *Scenario) (res Result) {
	sc.Schema.Link()
	for i := range sc.Clients {
		sc.Clients[i].Init.Bind(sc.Schema)
		for j := range sc.Clients[i].Ops {
			if o := sc.Clients[i].Ops[j].Sess; o != nil {
				if err := o.Bind(sc.Schema); err != nil {
					res.Err = err.Error()
					return
				}
			}
		}
	}
	t0 := time.Now()
	lap := func(what string) {
		if os.Getenv("VERIF_DEBUG") != "" {
			fmt.Fprintf(os.Stderr, "lap %-20s %v\n", what, time.Since(t0))
		}
	}
	g0 := globalsSnapshot()
	lap("globals0")
	env, err := sess.Compile(sc.Schema)
	if err != nil {
		res.Err = err.Error()
		return
	}
	gAfterCompile := globalsSnapshot()
	res.MHashBefore, res.MNodes = deep.Hash(env.Mod)

	k := len(sc.Clients)
	states := make([]*clientState, k)
	for i := range sc.Clients {
		if states[i], err = newClient(env, sc.Schema, &sc.Clients[i]); err != nil {
			res.Err = err.Error()
			return
		}
	}
	if sc.AloneOnly {
		res.Alone = make([][]string, k)
		for i := k - 1; i >= 0; i-- {
			for j := range sc.Clients[i].Ops {
				res.Alone[i] = append(res.Alone[i], runOp(states[i], &sc.Clients[i].Ops[j]))
			}
		}
		res.Fingerprint = "alone"
		return
	}
	res.Together = make([][]string, k)
	done := make([]bool, k)
	var wg sync.WaitGroup
	free := sc.Schedule.Mode == "free"
	if !free {
		zzverifrt.SetActive(true)
	}
	zzverifrt.ResetSteps(0)
	start := make(chan struct{})
	for i := 0; i < k; i++ {
		i := i
		wg.Add(1)
		go func() {
			defer wg.Done()
			out := make([]string, 0, len(sc.Clients[i].Ops))
			if free {
				<-start
			} else {
				zzverifrt.ClientStart(int32(i))
			}
			for j := range sc.Clients[i].Ops {
				out = append(out, runOp(states[i], &sc.Clients[i].Ops[j]))
				if !free {
					zzverifrt.ClientYield(int32(-2 - j))
				}
			}
			res.Together[i] = out // each client writes its own slot; read after join
			if !free {
				zzverifrt.ClientDone(int32(i))
			}
		}()
	}
	if free {
		close(start)
		wg.Wait()
	} else {
		r := kit.NewRng(sc.Schedule.Seed)
		log := kit.NewLog(0)
		// PCT: random priorities, a few change points
		prio := r.Perm(k)
		changeAt := map[int]bool{}
		if sc.Schedule.Mode == "pct" {
			h := sc.Schedule.Horizon
			if h < 10 {
				h = 10
			}
			for c := 0; c < sc.Schedule.Changes; c++ {
				changeAt[r.Intn(h)] = true
			}
		}
		remaining := k
		step := 0
		lastClient := -1
		res.Overlap = map[string]int{}
		for remaining > 0 {
			var id int
			var q int64
			if sc.Schedule.Mode == "pct" {
				// highest priority runnable client runs one yield at a time
				best := -1
				for c := 0; c < k; c++ {
					if !done[c] && (best < 0 || prio[c] > prio[best]) {
						best = c
					}
				}
				id = best
				q = 64
				if changeAt[step] {
					// demote the running client below everyone
					min := prio[0]
					for _, p := range prio {
						if p < min {
							min = p
						}
					}
					prio[id] = min - 1
				}
			} else {
				var live []int
				for c := 0; c < k; c++ {
					if !done[c] {
						live = append(live, c)
					}
				}
				id = live[r.Intn(len(live))]
				mean := sc.Schedule.Quantum
				if mean < 1 {
					mean = 1
				}
				q = int64(1 + r.Intn(2*mean))
			}
			site := zzverifrt.Resume(int32(id), q)
			step++
			if id != lastClient {
				res.Switches++
				lastClient = id
			}
			log.Add("%d@%d", id, site)
			if site == -1 {
				done[id] = true
				remaining--
			} else if site > 0 && len(res.SwitchSites) < 40 {
				res.SwitchSites = append(res.SwitchSites, fmt.Sprintf("c%d@%d", id, site))
			}
		}
		wg.Wait()
		zzverifrt.SetActive(false)
		res.Fingerprint = log.HashHex()
	}
	lap("concurrent")
	res.Steps = zzverifrt.StepCount()
	gAfter := globalsSnapshot()
	res.MHashAfter, _ = deep.Hash(env.Mod)
	res.GlobalsDiff = diffGlobals(g0, gAfter)
	_ = gAfterCompile

	lap("snapshots")
	// alone: the same programs, sequentially, on fresh copies of the initial trees
	res.Alone = make([][]string, k)
	hasLoad := false
	for i := range sc.Clients {
		cs, err := newClient(env, sc.Schema, &sc.Clients[i])
		if err != nil {
			res.Err = err.Error()
			return
		}
		for j := range sc.Clients[i].Ops {
			if strings.HasPrefix(sc.Clients[i].Ops[j].Kind, "load") {
				hasLoad = true
			}
			res.Alone[i] = append(res.Alone[i], runOp(cs, &sc.Clients[i].Ops[j]))
		}
	}
	// does *use* (no load at all) change process-wide state? measure on the solo pass
	if !hasLoad {
		res.GlobalsDiffUse = diffGlobals(gAfterCompile, gAfter)
	}
	lap("alone")
	if fp := res.Fingerprint; fp == "" {
		res.Fingerprint = "free"
	}
	return
}

// keep meta imported for documentation of what env.Mod is
var _ *meta.Module

// ---------------------------------------------------------------- worker / supervisor

// WorkerMain: scenario JSON on stdin, Result JSON on stdout, race reports on stderr.
func WorkerMain() {
	b, err := io.ReadAll(os.Stdin)
	if err != nil {
		os.Exit(3)
	}
	var sc Scenario
	if err := json.Unmarshal(b, &sc); err != nil {
		fmt.Fprintln(os.Stderr, "bad scenario:", err)
		os.Exit(3)
	}
	if sc.Procs > 0 {
		runtime.GOMAXPROCS(sc.Procs)
	}
	res := Run(&sc)
	out, _ := json.Marshal(&res)
	os.Stdout.Write(out)
	os.Stdout.Write([]byte("\n"))
}

// Exec runs one scenario in a fresh worker process and parses race reports.
func Exec(sc *Scenario, timeout time.Duration) Result {
	b, _ := json.Marshal(sc)
	cmd := exec.Command(os.Args[0], "worker-sched")
	cmd.Env = append(os.Environ(), "GORACE=halt_on_error=0 exitcode=0 history_size=2 atexit_sleep_ms=0", "GOTRACEBACK=single")
	cmd.Stdin = bytes.NewReader(b)
	var so, se bytes.Buffer
	cmd.Stdout = &so
	cmd.Stderr = &se
	if err := cmd.Start(); err != nil {
		return Result{Err: err.Error()}
	}
	done := make(chan error, 1)
	go func() { done <- cmd.Wait() }()
	var werr error
	select {
	case werr = <-done:
	case <-time.After(timeout):
		cmd.Process.Kill()
		<-done
		return Result{Err: "timeout", Stderr: tail(se.String())}
	}
	var res Result
	if jerr := json.Unmarshal(bytes.TrimSpace(so.Bytes()), &res); jerr != nil {
		res.Fatal = fatalClass(se.String())
		if res.Fatal == "" {
			res.Fatal = fmt.Sprintf("worker produced no result (%v, %v)", werr, jerr)
		}
	}
	res.Races = ParseRaces(se.String())
	res.Stderr = tail(se.String())
	return res
}

func tail(s string) string {
	if len(s) > 3000 {
		return s[:3000]
	}
	return s
}

func fatalClass(stderr string) string {
	for _, l := range strings.Split(stderr, "\n") {
		if strings.HasPrefix(l, "fatal error: ") {
			return strings.TrimPrefix(l, "fatal error: ")
		}
	}
	return ""
}

// ParseRaces extracts (top repo function, top repo function) per report.
func ParseRaces(stderr string) []Race {
	var out []Race
	blocks := strings.Split(stderr, "WARNING: DATA RACE")
	for _, b := range blocks[1:] {
		if i := strings.Index(b, "=================="); i >= 0 {
			b = b[:i]
		}
		var tops []string
		lines := strings.Split(b, "\n")
		inAccess := false
		for _, l := range lines {
			t := strings.TrimSpace(l)
			if strings.HasPrefix(t, "Write at") || strings.HasPrefix(t, "Read at") || strings.HasPrefix(t, "Previous write at") || strings.HasPrefix(t, "Previous read at") {
				inAccess = true
				continue
			}
			if strings.HasPrefix(t, "Goroutine ") {
				inAccess = false
				continue
			}
			if inAccess && strings.HasPrefix(t, "github.com/freeconf/yang/") && !strings.Contains(t, "zzverifrt") {
				f := strings.TrimPrefix(t, "github.com/freeconf/yang/")
				if j := strings.LastIndex(f, "("); j > 0 {
					f = f[:j]
				}
				tops = append(tops, f)
				inAccess = false
			}
		}
		r := Race{Text: tailN(b, 1200)}
		if len(tops) > 0 {
			r.A = tops[0]
		}
		if len(tops) > 1 {
			r.B = tops[1]
		}
		out = append(out, r)
	}
	return out
}

func tailN(s string, n int) string {
	if len(s) > n {
		return s[:n]
	}
	return s
}

// memCache is a source.Cacher held in memory; every load gets a fresh one.
type memCache struct{ m map[string][]byte }

func (c *memCache) WriteToCache(id, ext string, r io.Reader) error {
	b, err := io.ReadAll(r)
	if err != nil {
		return err
	}
	c.m[id+ext] = b
	return nil
}

func (c *memCache) ReadFromCache(id, ext string) (io.Reader, error) {
	b, ok := c.m[id+ext]
	if !ok {
		return nil, nil
	}
	return bytes.NewReader(b), nil
}
