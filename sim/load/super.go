//go:build verif

package load

import (
	"bufio"
	"bytes"
	"encoding/json"
	"fmt"
	"io"
	"os"
	"os/exec"
	"strings"
	"sync"
	"time"
)

// WorkerMain is the body of a worker process: cases as JSON lines on stdin,
// "START id" / "END json" lines on stdout.
func WorkerMain() {
	in := bufio.NewReaderSize(os.Stdin, 1<<20)
	out := bufio.NewWriter(os.Stdout)
	for {
		line, err := in.ReadBytes('\n')
		if len(line) > 0 {
			var c Case
			if jerr := json.Unmarshal(line, &c); jerr != nil {
				fmt.Fprintf(out, "BAD %v\n", jerr)
				out.Flush()
				os.Exit(3)
			}
			fmt.Fprintf(out, "START %s\n", c.ID)
			out.Flush()
			o := Run(&c)
			b, _ := json.Marshal(&o)
			out.WriteString("END ")
			out.Write(b)
			out.WriteString("\n")
			out.Flush()
		}
		if err != nil {
			return
		}
	}
}

type worker struct {
	cmd    *exec.Cmd
	stdin  io.WriteCloser
	stdout *bufio.Reader
	stderr *bytes.Buffer
	lines  chan string
}

func spawn() (*worker, error) {
	cmd := exec.Command(os.Args[0], "worker-load")
	cmd.Env = append(os.Environ(), "GOMAXPROCS=2", "GOTRACEBACK=single")
	stdin, err := cmd.StdinPipe()
	if err != nil {
		return nil, err
	}
	so, err := cmd.StdoutPipe()
	if err != nil {
		return nil, err
	}
	w := &worker{cmd: cmd, stdin: stdin, stdout: bufio.NewReaderSize(so, 1<<20), stderr: &bytes.Buffer{}, lines: make(chan string, 4)}
	cmd.Stderr = &capWriter{buf: w.stderr, max: 1 << 18}
	if err := cmd.Start(); err != nil {
		return nil, err
	}
	go func() {
		for {
			l, err := w.stdout.ReadString('\n')
			if l != "" {
				w.lines <- l
			}
			if err != nil {
				close(w.lines)
				return
			}
		}
	}()
	return w, nil
}

type capWriter struct {
	buf *bytes.Buffer
	max int
	mu  sync.Mutex
}

func (c *capWriter) Write(p []byte) (int, error) {
	c.mu.Lock()
	defer c.mu.Unlock()
	if c.buf.Len() < c.max {
		c.buf.Write(p)
	}
	return len(p), nil
}

func (w *worker) kill() {
	w.stdin.Close()
	w.cmd.Process.Kill()
	w.cmd.Wait()
}

// Supervise runs the cases on n worker processes; a dead or stuck worker is
// attributed to the case it had started.
func Supervise(cases []*Case, n int, perCase time.Duration, stop func() bool) ([]Outcome, error) {
	outs := make([]Outcome, len(cases))
	done := make([]bool, len(cases))
	var mu sync.Mutex
	next := 0
	var wg sync.WaitGroup
	var firstErr error
	for i := 0; i < n; i++ {
		wg.Add(1)
		go func() {
			defer wg.Done()
			var w *worker
			defer func() {
				if w != nil {
					w.kill()
				}
			}()
			for {
				mu.Lock()
				if next >= len(cases) || (stop != nil && stop()) {
					mu.Unlock()
					return
				}
				idx := next
				next++
				mu.Unlock()
				c := cases[idx]
				if w == nil {
					var err error
					if w, err = spawn(); err != nil {
						mu.Lock()
						firstErr = err
						mu.Unlock()
						return
					}
				}
				b, _ := json.Marshal(c)
				b = append(b, '\n')
				if _, err := w.stdin.Write(b); err != nil {
					w.kill()
					w = nil
					outs[idx] = Outcome{ID: c.ID, Kind: "fatal", Err: "worker gone before the case was sent: " + err.Error()}
					done[idx] = true
					continue
				}
				o, alive := await(w, c, perCase)
				outs[idx] = o
				done[idx] = true
				if !alive {
					w.kill()
					w = nil
				}
			}
		}()
	}
	wg.Wait()
	var res []Outcome
	for i := range outs {
		if done[i] {
			res = append(res, outs[i])
		}
	}
	return res, firstErr
}

func await(w *worker, c *Case, perCase time.Duration) (Outcome, bool) {
	timer := time.NewTimer(perCase)
	defer timer.Stop()
	for {
		select {
		case l, ok := <-w.lines:
			if !ok {
				// worker died
				w.cmd.Wait()
				se := w.stderr.String()
				kind := "fatal"
				o := Outcome{ID: c.ID, Kind: kind, Stderr: tail(se, 1500), PanicAt: fatalFrame(se), Panic: fatalClass(se)}
				return o, false
			}
			if strings.HasPrefix(l, "START ") {
				continue
			}
			if strings.HasPrefix(l, "END ") {
				var o Outcome
				if err := json.Unmarshal([]byte(l[4:]), &o); err != nil {
					return Outcome{ID: c.ID, Kind: "fatal", Err: "bad worker reply: " + err.Error()}, false
				}
				return o, true
			}
		case <-timer.C:
			return Outcome{ID: c.ID, Kind: "timeout", Err: fmt.Sprintf("no answer within %v (wall-clock safety net)", perCase)}, false
		}
	}
}

func tail(s string, n int) string {
	if len(s) > n {
		return s[:n]
	}
	return s
}

func fatalClass(stderr string) string {
	for _, l := range strings.Split(stderr, "\n") {
		if strings.HasPrefix(l, "fatal error: ") {
			return strings.TrimPrefix(l, "fatal error: ")
		}
		if strings.HasPrefix(l, "runtime: goroutine stack exceeds") {
			return "stack overflow"
		}
	}
	return "worker died"
}

// fatalFrame finds the innermost repo function in a runtime fatal trace.
func fatalFrame(stderr string) string {
	// the most frequent repo function in the printed window: for a stack
	// overflow that is the recursing function, whatever frame happened to be
	// innermost when the limit was hit
	count := map[string]int{}
	best, bestN := "unknown", 0
	for _, l := range strings.Split(stderr, "\n") {
		if strings.HasPrefix(l, "github.com/freeconf/yang/") && !strings.Contains(l, "zzverifrt") {
			if i := strings.LastIndex(l, "("); i > 0 {
				l = l[:i]
			}
			l = strings.TrimPrefix(l, "github.com/freeconf/yang/")
			count[l]++
			if count[l] > bestN || (count[l] == bestN && l < best) {
				best, bestN = l, count[l]
			}
		}
	}
	return best
}
