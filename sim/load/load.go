//go:build verif

// Package load is the load simulator (E2): the real lexer, grammar, builder,
// resolver and compiler run over a simulated file system in the instrumented
// build, so that map iteration order and the step budget belong to the
// simulator. Cases run in supervised worker processes because some failures
// (stack exhaustion) cannot be recovered in-process.
package load

import (
	"bytes"
	"errors"
	"fmt"
	"io"
	"runtime/debug"
	"sort"
	"strings"

	"github.com/freeconf/yang/meta"
	"github.com/freeconf/yang/parser"
	"github.com/freeconf/yang/source"
	"github.com/freeconf/yang/zzverifrt"

	"verif/sim/dump"
	"verif/sim/kit"
	"verif/sim/sess"
)

var ErrFs = errors.New("injected-fs-fault")

// FsFault strikes the Nth open (0-based) of resource Name.
type FsFault struct {
	Name  string `json:"name"`
	Nth   int    `json:"nth"`
	Kind  string `json:"kind"` // missing open-error read-error eof corrupt short-reads eof-with-data serve dup-chunk
	At    int    `json:"at,omitempty"`
	Serve string `json:"serve,omitempty"` // for kind serve: name of the file whose content is served instead
}

type OrderSpec struct {
	Mode string `json:"mode"` // sorted perm reverse1
	Seed uint64 `json:"seed,omitempty"`
	Site int32  `json:"site,omitempty"`
}

type Case struct {
	ID        string            `json:"id"`
	Main      string            `json:"main,omitempty"`      // text for LoadModuleFromString ...
	MainName  string            `json:"main_name,omitempty"` // ... or resource name for LoadModule
	Files     map[string]string `json:"files,omitempty"`
	Faults    []FsFault         `json:"faults,omitempty"`
	Order     OrderSpec         `json:"order"`
	Cache     string            `json:"cache,omitempty"` // "", ok, torn, write-fail, read-fail
	Budget    int64             `json:"budget,omitempty"`
	WantDump  bool              `json:"want_dump,omitempty"`
	Twice     bool              `json:"twice,omitempty"` // load twice in this process and compare dumps
	Any       bool              `json:"any,omitempty"`   // wrap the opener in source.Any (missing becomes an error)
	WantOrder bool              `json:"want_order,omitempty"`
	Features  string            `json:"features,omitempty"`   // "" (all on), "off:a,b" or "on:a,b": parser.Options.Features
	ViaString bool              `json:"via_string,omitempty"` // load the main module's text (Files[MainName]) with LoadModuleFromString instead of by name
}

type Outcome struct {
	ID         string              `json:"id"`
	Kind       string              `json:"kind"` // module error panic budget accessor-panic nil-module fatal timeout
	Err        string              `json:"err,omitempty"`
	PanicAt    string              `json:"panic_at,omitempty"`
	Panic      string              `json:"panic,omitempty"`
	Stack      string              `json:"stack,omitempty"`
	Steps      int64               `json:"steps"`
	Dump       string              `json:"dump,omitempty"`
	DumpHash   string              `json:"dump_hash,omitempty"`
	Dump2Hash  string              `json:"dump2_hash,omitempty"`
	Visits     map[int32]int       `json:"visits,omitempty"` // range-site visits with >1 entries
	Opens      []string            `json:"opens,omitempty"`
	LogHash    string              `json:"log_hash"`
	FaultsHit  []string            `json:"faults_hit,omitempty"`
	AccPanics  []string            `json:"accessor_panics,omitempty"`
	TmplPanics int                 `json:"template_accessor_panics,omitempty"`
	Stderr     string              `json:"stderr,omitempty"`
	Order      []string            `json:"order,omitempty"`
	OrderTrace map[string][]string `json:"order_trace,omitempty"`
	LoopFrame  string              `json:"loop_frame,omitempty"` // innermost frame shared by two different stopping points
	Recursion  string              `json:"recursion,omitempty"`  // repo function that occurs > 50 times on the stack
}

// ---------------------------------------------------------------- simulated file system

type simfs struct {
	c        *Case
	opens    map[string]int
	log      *kit.Log
	hit      []string
	cached   map[string][]byte
	openlist []string
}

type faultyReader struct {
	data []byte
	f    *FsFault
	off  int
	fs   *simfs
	name string
}

func (r *faultyReader) Read(p []byte) (int, error) {
	if len(p) == 0 {
		return 0, nil
	}
	limit := len(r.data)
	kind := ""
	if r.f != nil {
		kind = r.f.Kind
	}
	if (kind == "read-error" || kind == "eof") && r.f.At < limit {
		limit = r.f.At
	}
	if r.off >= limit {
		if kind == "read-error" {
			r.fs.log.Add("read %s -> error at %d", r.name, r.off)
			return 0, fmt.Errorf("%w: read error on %s at byte %d", ErrFs, r.name, r.off)
		}
		return 0, io.EOF
	}
	n := len(p)
	if kind == "short-reads" || kind == "eof-with-data" {
		if n > 1+(r.off%7) {
			n = 1 + (r.off % 7)
		}
	}
	if r.off+n > limit {
		n = limit - r.off
	}
	copy(p, r.data[r.off:r.off+n])
	r.off += n
	if kind == "eof-with-data" && r.off >= limit {
		return n, io.EOF
	}
	return n, nil
}

func (fs *simfs) open(name, ext string) (io.Reader, error) {
	nth := fs.opens[name]
	fs.opens[name] = nth + 1
	var f *FsFault
	for i := range fs.c.Faults {
		x := &fs.c.Faults[i]
		if x.Name == name && x.Nth == nth {
			f = x
		}
	}
	fs.log.Add("open %s%s #%d", name, ext, nth)
	fs.openlist = append(fs.openlist, name)
	content, ok := fs.c.Files[name]
	if f != nil {
		fs.hit = append(fs.hit, fmt.Sprintf("%s#%d:%s", name, nth, f.Kind))
		switch f.Kind {
		case "missing":
			return nil, nil
		case "open-error":
			return nil, fmt.Errorf("%w: cannot open %s", ErrFs, name)
		case "serve":
			content, ok = fs.c.Files[f.Serve]
		case "corrupt":
			b := []byte(content)
			if f.At < len(b) {
				b[f.At] ^= 0x5a
			}
			content = string(b)
		case "dup-chunk":
			if f.At < len(content) {
				end := f.At + 64
				if end > len(content) {
					end = len(content)
				}
				content = content[:end] + content[f.At:end] + content[end:]
			}
		}
	}
	if !ok {
		return nil, nil
	}
	return &faultyReader{data: []byte(content), f: f, fs: fs, name: name}, nil
}

// cacher is the simulated source.Cacher.
type cacher struct {
	fs   *simfs
	mode string
}

func (c cacher) ReadFromCache(id, ext string) (io.Reader, error) {
	c.fs.log.Add("cache read %s", id)
	b, ok := c.fs.cached[id]
	if !ok {
		return nil, nil
	}
	if c.mode == "read-fail" {
		return nil, fmt.Errorf("%w: cache read %s", ErrFs, id)
	}
	return bytes.NewReader(b), nil
}

func (c cacher) WriteToCache(id, ext string, r io.Reader) error {
	c.fs.log.Add("cache write %s", id)
	if c.mode == "write-fail" {
		return fmt.Errorf("%w: cache write %s", ErrFs, id)
	}
	b, err := io.ReadAll(r)
	if err != nil {
		return err
	}
	if c.mode == "torn" && len(b) > 2 {
		b = b[:len(b)/2]
	}
	c.fs.cached[id] = b
	return nil
}

// ---------------------------------------------------------------- running a case

func orderHook(o OrderSpec, visits map[int32]int, applied *[]string) func(site int32, n int) []int {
	count := map[int32]int{}
	return func(site int32, n int) []int {
		v := count[site]
		count[site] = v + 1
		switch o.Mode {
		case "perm":
			r := kit.NewRng(kit.Mix(o.Seed, fmt.Sprint(site), v))
			return r.Perm(n)
		case "reverse1":
			if site == o.Site {
				p := make([]int, n)
				for i := range p {
					p[i] = n - 1 - i
				}
				return p
			}
		}
		return nil
	}
}

// Run executes one case in this process.
func Run(c *Case) (out Outcome) {
	out.ID = c.ID
	log := kit.NewLog(0)
	fs := &simfs{c: c, opens: map[string]int{}, log: log, cached: map[string][]byte{}}
	out.Visits = map[int32]int{}
	zzverifrt.VisitHook = func(site int32, n int) { out.Visits[site]++ }
	zzverifrt.OrderHook = orderHook(c.Order, out.Visits, &out.Order)
	defer func() {
		zzverifrt.OrderHook = nil
		zzverifrt.VisitHook = nil
		zzverifrt.ResetSteps(0)
	}()
	budget := c.Budget
	if budget <= 0 {
		budget = 20_000_000
	}
	var opener source.Opener = fs.open
	if c.Cache != "" {
		opener = source.Cached(source.Opener(fs.open), cacher{fs: fs, mode: c.Cache})
	}
	if c.Any {
		opener = source.Any(opener)
	}

	var rec string
	var frames []string
	load := func() (m *meta.Module, err error, pan interface{}, at, stack string, steps int64) {
		zzverifrt.ResetSteps(budget)
		defer func() {
			steps = zzverifrt.StepCount()
			if p := recover(); p != nil {
				pan = p
				at = sess.TopRepoFrame()
				stack = sess.ShortStack()
				rec = sess.DeepRecursion(3)
				frames = sess.RepoFrames()
			}
			zzverifrt.ResetSteps(0)
		}()
		var opts parser.Options
		if c.Features != "" {
			var names []string
			if rest := c.Features[strings.Index(c.Features, ":")+1:]; rest != "" {
				names = strings.Split(rest, ",")
			}
			if strings.HasPrefix(c.Features, "on:") {
				opts.Features = meta.FeaturesOn(names)
			} else {
				opts.Features = meta.FeaturesOff(names)
			}
		}
		switch {
		case c.MainName != "" && c.ViaString:
			m, err = parser.LoadModuleFromStringWithOptions(opener, c.Files[c.MainName], opts)
		case c.MainName != "":
			m, err = parser.LoadModuleWithOptions(opener, c.MainName, opts)
		default:
			m, err = parser.LoadModuleFromStringWithOptions(opener, c.Main, opts)
		}
		return
	}
	m, err, pan, at, stack, steps := load()
	out.Steps = steps
	out.FaultsHit = fs.hit
	out.Opens = fs.openlist
	out.LogHash = log.HashHex()
	if pan != nil {
		if _, ok := pan.(zzverifrt.BudgetExceeded); ok {
			out.Kind = "budget"
			out.PanicAt = at
			out.Stack = stack
			out.Recursion = rec
			if rec == "" {
				// where is the loop? stop a second time somewhere else and keep
				// what the two stacks share, outermost first
				first := frames
				budget += 7919
				fs.opens = map[string]int{}
				load()
				out.LoopFrame = commonOuter(first, frames)
			}
			return
		}
		out.Kind = "panic"
		out.Panic = sess.NormPanic(pan)
		out.PanicAt = at
		out.Stack = stack
		return
	}
	if err != nil {
		out.Kind = "error"
		out.Err = err.Error()
		if len(out.Err) > 300 {
			out.Err = out.Err[:300]
		}
		return
	}
	if m == nil {
		out.Kind = "nil-module"
		return
	}
	out.Kind = "module"
	// walk every public accessor under its own budget
	walk := func(mod *meta.Module) (d *dump.Dumper, text string, pan interface{}, at string) {
		zzverifrt.ResetSteps(budget)
		defer func() {
			if p := recover(); p != nil {
				pan = p
				at = sess.TopRepoFrame()
			}
			zzverifrt.ResetSteps(0)
		}()
		if c.WantDump {
			d = dump.New()
		} else {
			d = dump.NewHashOnly()
		}
		text = d.Dump(mod)
		return
	}
	d, text, wpan, wat := walk(m)
	if wpan != nil {
		if _, ok := wpan.(zzverifrt.BudgetExceeded); ok {
			out.Kind = "budget"
			out.PanicAt = "accessor-walk:" + wat
			return
		}
		out.Kind = "accessor-panic"
		out.Panic = sess.NormPanic(wpan)
		out.PanicAt = wat
		return
	}
	if len(d.Panics) > 0 {
		out.Kind = "accessor-panic"
		sort.Strings(d.Panics)
		out.AccPanics = uniq(d.Panics)
		out.PanicAt = strings.SplitN(out.AccPanics[0], " panicked", 2)[0]
		return
	}
	out.TmplPanics = len(d.TemplatePanics)
	if c.WantOrder {
		out.OrderTrace = map[string][]string{}
		func() {
			defer func() {
				if p := recover(); p != nil {
					out.OrderTrace["!panic"] = []string{fmt.Sprint(p)}
				}
			}()
			orderTrace(m, out.OrderTrace)
		}()
	}
	out.DumpHash = fmt.Sprintf("%016x", d.Hash())
	if c.WantDump {
		out.Dump = text
	}
	if c.Twice {
		fs.opens = map[string]int{}
		m2, err2, pan2, _, _, _ := load()
		if pan2 != nil || err2 != nil || m2 == nil {
			out.Dump2Hash = fmt.Sprintf("second load failed: %v %v", err2, pan2)
		} else {
			d2, _, _, _ := walk(m2)
			if d2 != nil {
				out.Dump2Hash = fmt.Sprintf("%016x", d2.Hash())
			}
		}
	}
	return
}

func uniq(s []string) []string {
	var out []string
	for i, x := range s {
		if i == 0 || x != s[i-1] {
			out = append(out, x)
		}
	}
	return out
}

func init() {
	// fatal stack exhaustion should be prompt
	debug.SetMaxStack(64 << 20)
}

// commonOuter returns the innermost function of the common outer part of two
// stacks (both innermost first).
func commonOuter(a, b []string) string {
	i, j := len(a)-1, len(b)-1
	last := ""
	for i >= 0 && j >= 0 && a[i] == b[j] {
		last = a[i]
		i--
		j--
	}
	return last
}

// orderTrace records, through the public accessors only, the order of data
// definitions under every parent, and of cases under every choice.
func orderTrace(m *meta.Module, out map[string][]string) {
	seen := map[meta.Definition]bool{} // recursive groupings make the compiled tree cyclic
	var walk func(path string, defs []meta.Definition)
	walk = func(path string, defs []meta.Definition) {
		if len(path) > 2000 {
			return
		}
		var ids []string
		for _, d := range defs {
			ids = append(ids, d.Ident())
			out["seen:"+d.Ident()] = nil
			listFacts(d, out)
		}
		out[path] = ids
		for _, d := range defs {
			p := d.Ident()
			if path != "" {
				p = path + "/" + d.Ident()
			}
			if seen[d] {
				continue
			}
			seen[d] = true
			switch x := d.(type) {
			case *meta.Choice:
				out["case:"+p] = append([]string(nil), x.CaseIdents()...)
				for _, id := range x.CaseIdents() {
					walk(p+"/"+id, x.Cases()[id].DataDefinitions())
				}
			case meta.HasDataDefinitions:
				walk(p, x.DataDefinitions())
			}
		}
	}
	walk("", m.DataDefinitions())
	for name, id := range m.Identities() {
		if len(id.BaseIds()) > 1 {
			var bs []string
			for _, b := range id.Base() {
				bs = append(bs, b.Ident())
			}
			out["idbase:"+name] = bs
		}
	}
	var feats []string
	for name := range m.Features() {
		feats = append(feats, name)
	}
	sort.Strings(feats)
	out["features:"+m.Ident()] = feats
	var revs []string
	for _, r := range m.RevisionHistory() {
		revs = append(revs, r.Ident())
	}
	out["rev:"+m.Ident()] = revs
	for name, a := range m.Actions() {
		if a.Input() != nil {
			walk(name+"/input", a.Input().DataDefinitions())
		}
		if a.Output() != nil {
			walk(name+"/output", a.Output().DataDefinitions())
		}
	}
	for name, n := range m.Notifications() {
		walk(name, n.DataDefinitions())
	}
}

// listFacts records, keyed "<kind>:<ident>", the ordered member lists a
// definition carries (enum and bit members, union member types, patterns,
// musts, if-features, extension statements, unique, keys, leaf-list
// defaults). Copies of one definition (a grouping used twice) must agree;
// a disagreement is recorded as an extra member.
func listFacts(d meta.Definition, out map[string][]string) {
	put := func(kind string, vals []string) {
		if len(vals) == 0 {
			return
		}
		key := kind + ":" + d.Ident()
		if old, ok := out[key]; ok {
			if strings.Join(old, "\x00") != strings.Join(vals, "\x00") {
				out[key] = append(old, "!another-copy-has:"+strings.Join(vals, ","))
			}
			return
		}
		out[key] = vals
	}
	if l, ok := d.(meta.Leafable); ok && l.Type() != nil {
		t := l.Type()
		var v []string
		for _, e := range t.Enum() {
			v = append(v, e.Label)
		}
		put("enum", v)
		v = nil
		for _, e := range t.Enums() {
			v = append(v, e.Ident())
		}
		put("enums", v)
		v = nil
		for _, b := range t.Bits() {
			v = append(v, b.Ident())
		}
		put("bits", v)
		v = nil
		for _, u := range t.Union() {
			v = append(v, u.Ident())
		}
		put("union", v)
		v = nil
		for _, p := range t.Patterns() {
			v = append(v, p.Pattern)
		}
		put("pattern", v)
	}
	if x, ok := d.(interface{ Musts() []*meta.Must }); ok {
		var v []string
		for _, m := range x.Musts() {
			v = append(v, m.Expression())
		}
		put("must", v)
	}
	if x, ok := d.(interface{ IfFeatures() []*meta.IfFeature }); ok {
		var v []string
		for _, f := range x.IfFeatures() {
			v = append(v, f.Expression())
		}
		put("iffeature", v)
	}
	if x, ok := d.(meta.HasExtensions); ok {
		var v []string
		for _, e := range x.Extensions() {
			v = append(v, e.Ident()+" "+e.Argument())
		}
		put("ext", v)
	}
	if x, ok := d.(*meta.List); ok {
		var v []string
		for _, u := range x.Unique() {
			v = append(v, strings.Join(u, " "))
		}
		put("unique", v)
		v = nil
		for _, k := range x.KeyMeta() {
			v = append(v, k.Ident())
		}
		if len(v) > 1 {
			put("key", v)
		}
	}
	if x, ok := d.(*meta.LeafList); ok && x.HasDefault() {
		put("default", x.Default())
	}
}
