// Package sess is the session simulator (E1): a compiled schema, a store that
// is a real node implementation, and operations issued through the public
// Selection API with the node, reader and writer seams under the simulator's
// control.
package sess

import (
	"encoding/json"
	"errors"
	"fmt"
	"io"
	"strings"

	"github.com/freeconf/yang/fc"
	"github.com/freeconf/yang/meta"
	"github.com/freeconf/yang/node"
	"github.com/freeconf/yang/nodeutil"
	"github.com/freeconf/yang/parser"

	"verif/sim/mnode"
	"verif/sim/model"
	"verif/sim/schema"
	"verif/sim/simnode"
	"verif/sim/store"
)

// Env is a compiled schema.
type Env struct {
	S    *schema.Node
	Yang string
	Mod  *meta.Module
}

func Compile(s *schema.Node) (*Env, error) {
	main, mods := s.Modules()
	y := mods[main]
	opener := func(name string, ext string) (io.Reader, error) {
		if t, ok := mods[name]; ok && name != main {
			return strings.NewReader(t), nil
		}
		return nil, nil
	}
	m, err := parser.LoadModuleFromString(opener, y)
	if err != nil {
		return nil, fmt.Errorf("generated schema does not compile: %w\n%s", err, y)
	}
	return &Env{S: s, Yang: y, Mod: m}, nil
}

// Op is one operation of a history.
type Op struct {
	Kind       string       `json:"kind"`                 // upsert insert update replace delete
	Into       bool         `json:"into,omitempty"`       // store is the source, payload tree the target? no: see Exec
	At         model.Path   `json:"at"`                   // entry point (empty: root)
	SrcKind    string       `json:"src,omitempty"`        // json xml mnode
	Interleave bool         `json:"interleave,omitempty"` // xml: list entries interleaved with their siblings
	ViaRpc     bool         `json:"viarpc,omitempty"`     // root upsert delivered as the input of rpc zzin whose handler upserts it into the store
	Tree       *model.Tree  `json:"tree,omitempty"`       // payload at a root/container/list-entry entry point
	List       *model.ListT `json:"list,omitempty"`       // payload at a list entry point
	Where      string       `json:"where,omitempty"`      // Into direction: the source selection is constrained by where=<this> (an expression that holds for every entry)
	Leaf       string       `json:"leaf,omitempty"`       // the edit is rooted at this leaf of the node At addresses (a leaf selection); the payload is At-level and holds that leaf
	Paths      []model.Path `json:"paths,omitempty"`      // batch-delete: containers, none inside another; all are selected first (Find), then deleted in this order through those selections
	Keys       [][]string   `json:"keys,omitempty"`       // sweep: At is a list; its entries are walked once (First/Next), then the ones with these keys are deleted, in this order, through the selections the walk produced
}

func (o Op) String() string {
	s := o.Kind
	if o.Into {
		s += "-into"
	}
	if o.ViaRpc {
		s += "-via-rpc-input"
	}
	s += " @" + o.At.String()
	if o.Leaf != "" {
		s += "/" + o.Leaf + " (leaf selection)"
	}
	if len(o.Keys) > 0 {
		s += fmt.Sprintf(" keys%v", o.Keys)
	}
	for _, p := range o.Paths {
		s += " " + p.String()
	}
	if o.SrcKind != "" {
		s += " from " + o.SrcKind
	}
	if o.Tree != nil {
		s += " " + o.Tree.String()
	}
	if o.List != nil {
		t := model.New(o.List.S.DataParent())
		t.List[o.List.S.Name] = o.List
		s += " " + t.String()
	}
	return s
}

// Bind re-attaches schema pointers of the payload after JSON decoding.
func (o *Op) Bind(root *schema.Node) error {
	s := root
	for _, st := range o.At {
		s = s.Child(st.Name)
		if s == nil {
			return fmt.Errorf("op path %s not in schema", o.At)
		}
	}
	if o.Tree != nil {
		o.Tree.Bind(s)
	}
	if o.List != nil {
		o.List.S = s
		for _, e := range o.List.Entries {
			e.Bind(s)
		}
	}
	return nil
}

func (o Op) Strategy() model.Strategy {
	switch o.Kind {
	case "insert":
		return model.Insert
	case "update":
		return model.Update
	}
	return model.Upsert
}

// atList reports whether the entry point is a list itself.
func (o Op) atList() bool {
	return len(o.At) > 0 && o.List != nil
}

// Reader lets a caller interpose on the byte stream of a JSON/XML source.
type ReaderHook func(doc string) io.Reader

// SourceNode builds the source node for an op payload positioned at the entry
// point (or, for replace, at the entry point's parent).
func SourceNode(o Op, replaceParentLevel bool, hook ReaderHook) (node.Node, string, error) {
	var t *model.Tree
	var l *model.ListT
	t, l = o.Tree, o.List
	if replaceParentLevel {
		last := o.At[len(o.At)-1]
		if last.Key != nil {
			// list entry: parent selection is the list
			l = &model.ListT{S: o.Tree.S, Entries: []*model.Tree{o.Tree}}
			t = nil
		} else if o.List != nil {
			// whole list: parent is the container holding it
			p := model.New(o.List.S.DataParent())
			p.List[o.List.S.Name] = o.List
			t, l = p, nil
		} else {
			p := model.New(o.Tree.S.DataParent())
			p.Cont[o.Tree.S.Name] = o.Tree
			t, l = p, nil
		}
	}
	mk := func(doc string) io.Reader {
		if hook != nil {
			return hook(doc)
		}
		return strings.NewReader(doc)
	}
	switch o.SrcKind {
	case "json":
		var doc string
		if l != nil {
			doc = l.JSON()
		} else {
			doc = t.JSON()
		}
		n, err := nodeutil.ReadJSONIO(mk(doc))
		return n, doc, err
	case "xml":
		var doc string
		if l != nil {
			doc = l.XML()
		} else if o.Interleave {
			doc = t.XMLInterleaved("x")
		} else {
			doc = t.XML("x")
		}
		n, err := nodeutil.ReadXMLDoc(mk(doc))
		if err != nil {
			return nil, doc, err
		}
		return n, doc, nil
	case "mnode", "":
		if l != nil {
			n := mnode.List(l.Clone())
			n.ReadOnly = true
			return n, "", nil
		}
		n := mnode.Tree(t.Clone())
		n.ReadOnly = true
		return n, "", nil
	}
	return nil, "", fmt.Errorf("unknown source kind %q", o.SrcKind)
}

// FindSel navigates from the root selection to the path.
func FindSel(root *node.Selection, p model.Path) (*node.Selection, error) {
	if len(p) == 0 {
		return root, nil
	}
	return root.Find(p.String())
}

// Result of executing an op through the library.
type Result struct {
	Err       error
	Panic     interface{}
	PanicAt   string
	Stack     string
	NotFound  bool       // entry point did not resolve
	Walk      [][]string // list-session: keys met by a second walk through the kept list selection
	Walked    bool
	SourceErr bool // the source document could not be read
}

func opStart(ss *simnode.Session) {
	if ss != nil && ss.OnOpStart != nil {
		ss.OnOpStart()
	}
}

func (r Result) Class() model.ErrClass {
	if r.Err == nil {
		return model.OK
	}
	if errors.Is(r.Err, fc.ConflictError) {
		return model.Conflict
	}
	if errors.Is(r.Err, fc.NotFoundError) {
		return model.NotFound
	}
	return -1
}

// Exec runs one op against the store's current content. ss, when non-nil,
// wraps target and source nodes with recording/fault-injecting shells.
func Exec(env *Env, st store.Store, o Op, ss *simnode.Session, hook ReaderHook) (res Result) {
	defer func() {
		if p := recover(); p != nil {
			res.Panic = p
			res.PanicAt = TopRepoFrame()
			res.Stack = ShortStack()
		}
	}()
	var rootNode node.Node = st.Root()
	if ss != nil {
		rootNode = ss.Wrap(rootNode, "T", nil, "")
		if ss.Outer != nil {
			rootNode = ss.Outer(rootNode).(node.Node)
		}
	}
	b := node.NewBrowser(env.Mod, rootNode)
	if ss != nil && ss.OnBrowser != nil {
		ss.OnBrowser(b)
	}
	sel, err := FindSel(b.Root(), o.At)
	if err != nil {
		res.Err = fmt.Errorf("find %s: %w", o.At, err)
		return
	}
	if sel == nil {
		res.NotFound = true
		return
	}
	if o.Leaf != "" {
		if sel, err = sel.Find(o.Leaf); err != nil || sel == nil {
			res.Err = fmt.Errorf("find leaf %s of %s: %v", o.Leaf, o.At, err)
			res.NotFound = err == nil
			return
		}
	}
	if o.Kind == "delete" {
		opStart(ss)
		res.Err = sel.Delete()
		return
	}
	if o.Kind == "batch-delete" {
		var sels []*node.Selection
		for _, p := range o.Paths {
			ps, err := FindSel(b.Root(), p)
			if err != nil || ps == nil {
				res.Err = fmt.Errorf("find %s: %v", p, err)
				res.NotFound = ps == nil && err == nil
				return
			}
			sels = append(sels, ps)
		}
		opStart(ss)
		for _, ps := range sels {
			if res.Err = ps.Delete(); res.Err != nil {
				return
			}
		}
		return
	}
	if o.Kind == "list-session" {
		// one list selection kept across: walk, delete some entries through the walk's
		// selections, put entries with the same keys back through the list selection,
		// walk again
		found := map[string]*node.Selection{}
		item, err := sel.First()
		for ; err == nil && item.Selection != nil; item, err = item.Next() {
			var ks []string
			for _, k := range item.Key {
				ks = append(ks, mnode.FromVal(k)[0])
			}
			found[strings.Join(ks, "\x00")] = item.Selection
		}
		if err != nil {
			res.Err = fmt.Errorf("walking %s: %w", o.At, err)
			return
		}
		src, _, err := SourceNode(o, false, hook)
		if err != nil {
			res.Err = fmt.Errorf("source: %w", err)
			res.SourceErr = true
			return
		}
		if ss != nil {
			src = ss.Wrap(src, "S", nil, "")
		}
		opStart(ss)
		for _, k := range o.Keys {
			es := found[strings.Join(k, "\x00")]
			if es == nil {
				res.Err = fmt.Errorf("walking the entries of %s with First/Next did not meet entry %v", o.At, k)
				return
			}
			if res.Err = es.Delete(); res.Err != nil {
				return
			}
		}
		if res.Err = sel.UpsertFrom(src); res.Err != nil {
			return
		}
		item, err = sel.First()
		for ; err == nil && item.Selection != nil; item, err = item.Next() {
			var ks []string
			for _, k := range item.Key {
				ks = append(ks, mnode.FromVal(k)[0])
			}
			res.Walk = append(res.Walk, ks)
		}
		res.Walked = true
		if err != nil {
			res.Err = fmt.Errorf("second walk of %s: %w", o.At, err)
		}
		return
	}
	if o.Kind == "sweep" {
		// "walk the list, then delete some of what was seen": every delete goes
		// through an entry selection of the one walk, i.e. through one list node
		found := map[string]*node.Selection{}
		item, err := sel.First()
		for ; err == nil && item.Selection != nil; item, err = item.Next() {
			var ks []string
			for _, k := range item.Key {
				ks = append(ks, mnode.FromVal(k)[0])
			}
			found[strings.Join(ks, "\x00")] = item.Selection
		}
		if err != nil {
			res.Err = fmt.Errorf("walking %s: %w", o.At, err)
			return
		}
		opStart(ss)
		for _, k := range o.Keys {
			es := found[strings.Join(k, "\x00")]
			if es == nil {
				res.Err = fmt.Errorf("walking the entries of %s with First/Next did not meet entry %v", o.At, k)
				return
			}
			if res.Err = es.Delete(); res.Err != nil {
				return
			}
		}
		return
	}
	if o.ViaRpc {
		if len(o.At) != 0 || o.Kind != "upsert" {
			res.Err = fmt.Errorf("harness: via-rpc is for root upserts")
			return
		}
		src, _, err := SourceNode(o, false, hook)
		if err != nil {
			res.Err = fmt.Errorf("source: %w", err)
			res.SourceErr = true
			return
		}
		if ss != nil {
			src = ss.Wrap(src, "S", nil, "")
		}
		target := rootNode
		handler := &nodeutil.Extend{Base: rootNode, OnAction: func(p node.Node, r node.ActionRequest) (node.Node, error) {
			return nil, r.Input.UpsertInto(target)
		}}
		rsel, err := node.NewBrowser(env.Mod, handler).Root().Find("zzin")
		if err != nil || rsel == nil {
			res.Err = fmt.Errorf("harness: rpc zzin not found: %v", err)
			return
		}
		opStart(ss)
		_, res.Err = rsel.Action(src)
		return
	}
	src, _, err := SourceNode(o, o.Kind == "replace", hook)
	if err != nil {
		res.Err = fmt.Errorf("source: %w", err)
		res.SourceErr = true
		return
	}
	if ss != nil {
		src = ss.Wrap(src, "S", nil, "")
	}
	opStart(ss)
	switch o.Kind {
	case "upsert":
		res.Err = sel.UpsertFrom(src)
	case "insert":
		res.Err = sel.InsertFrom(src)
	case "update":
		res.Err = sel.UpdateFrom(src)
	case "replace":
		res.Err = sel.ReplaceFrom(src)
	default:
		res.Err = fmt.Errorf("unknown op kind %q", o.Kind)
	}
	return
}

// ExecInto runs the op in the other direction: a source browser over the
// payload (placed in a full tree at the entry point) pushes into the node the
// store has at the entry point.
func ExecInto(env *Env, st store.Store, o Op, full *model.Tree, ss *simnode.Session) (res Result) {
	defer func() {
		if p := recover(); p != nil {
			res.Panic = p
			res.PanicAt = TopRepoFrame()
			res.Stack = ShortStack()
		}
	}()
	var rootNode node.Node = st.Root()
	if ss != nil {
		rootNode = ss.Wrap(rootNode, "T", nil, "")
	}
	tb := node.NewBrowser(env.Mod, rootNode)
	if ss != nil && ss.OnBrowser != nil {
		ss.OnBrowser(tb)
	}
	tsel, err := FindSel(tb.Root(), o.At)
	if err != nil {
		res.Err = err
		return
	}
	if tsel == nil {
		res.NotFound = true
		return
	}
	var srcRoot node.Node
	switch o.SrcKind {
	case "xml":
		// the source browser stands on a whole document; the edit starts at a selection found inside it
		n, err := nodeutil.ReadXMLDoc(strings.NewReader(full.XML("x")))
		if err != nil {
			res.Err = fmt.Errorf("source: %w", err)
			res.SourceErr = true
			return
		}
		srcRoot = n
	case "json":
		n, err := nodeutil.ReadJSONIO(strings.NewReader(full.JSON()))
		if err != nil {
			res.Err = fmt.Errorf("source: %w", err)
			res.SourceErr = true
			return
		}
		srcRoot = n
	default:
		sn := mnode.Tree(full.Clone())
		sn.ReadOnly = true
		srcRoot = sn
	}
	if ss != nil {
		srcRoot = ss.Wrap(srcRoot, "S", nil, "")
	}
	sb := node.NewBrowser(env.Mod, srcRoot)
	ssel, err := FindSel(sb.Root(), o.At)
	if err != nil || ssel == nil {
		res.Err = fmt.Errorf("harness: payload path %s does not resolve in source: %v", o.At, err)
		return
	}
	if o.Where != "" {
		if ssel, err = ssel.Constrain("where=" + o.Where); err != nil || ssel == nil {
			res.Err = fmt.Errorf("harness: constraining the source selection: %v", err)
			return
		}
	}
	opStart(ss)
	switch o.Kind {
	case "upsert":
		res.Err = ssel.UpsertInto(tsel.Node)
	case "insert":
		res.Err = ssel.InsertInto(tsel.Node)
	case "update":
		res.Err = ssel.UpdateInto(tsel.Node)
	default:
		res.Err = fmt.Errorf("unknown into-op kind %q", o.Kind)
	}
	return
}

// Export reads the store through the library into a capturing model node.
func Export(env *Env, st store.Store) (t *model.Tree, err error) {
	defer func() {
		if p := recover(); p != nil {
			err = fmt.Errorf("panic during export: %v at %s", p, TopRepoFrame())
		}
	}()
	b := node.NewBrowser(env.Mod, st.Root())
	out := model.New(env.S)
	if err := b.Root().UpsertInto(mnode.Tree(out)); err != nil {
		return nil, err
	}
	return out, nil
}

// ApplyModel performs the op on the model and says what the statement
// predicts.
func ApplyModel(t *model.Tree, o Op) (out model.Outcome, resolved bool) {
	loc, ok := t.Resolve(o.At)
	if !ok {
		return out, false
	}
	switch o.Kind {
	case "delete":
		t.Delete(o.At)
		return out, true
	case "batch-delete":
		for _, p := range o.Paths {
			if l, ok := t.Resolve(p); !ok || l.Tree == nil {
				return out, false
			}
		}
		for _, p := range o.Paths {
			t.Delete(p)
		}
		return out, true
	case "list-session":
		if loc.List == nil || loc.Tree != nil || o.List == nil {
			return out, false
		}
		for _, k := range o.Keys {
			if _, e := loc.List.Find(k); e == nil {
				return out, false
			}
		}
		for _, k := range o.Keys {
			p := append(append(model.Path(nil), o.At[:len(o.At)-1]...), model.Step{Name: o.At[len(o.At)-1].Name, Key: k})
			t.Delete(p)
		}
		if l2, ok := t.Resolve(o.At); ok && l2.List != nil {
			model.MergeList(l2.List, o.List, model.Upsert, &out)
		} else {
			return out, false
		}
		return out, true
	case "sweep":
		if loc.List == nil || loc.Tree != nil {
			return out, false
		}
		for _, k := range o.Keys {
			if _, e := loc.List.Find(k); e == nil {
				return out, false // (a shrunk scenario) the sweep names an entry that is not there
			}
		}
		for _, k := range o.Keys {
			p := append(append(model.Path(nil), o.At[:len(o.At)-1]...), model.Step{Name: o.At[len(o.At)-1].Name, Key: k})
			t.Delete(p)
		}
		return out, true
	case "replace":
		t.Delete(o.At)
		// insert at the parent level
		parent := loc.Parent
		last := o.At[len(o.At)-1]
		if last.Key != nil {
			l := parent.List[last.Name]
			if l == nil {
				l = &model.ListT{S: loc.S}
				parent.List[last.Name] = l
			}
			model.MergeList(l, &model.ListT{S: loc.S, Entries: []*model.Tree{o.Tree}}, model.Insert, &out)
		} else if o.List != nil {
			p := model.New(parent.S)
			p.List[last.Name] = o.List
			model.MergeTree(parent, p, model.Insert, false, &out)
		} else {
			p := model.New(parent.S)
			p.Cont[last.Name] = o.Tree
			model.MergeTree(parent, p, model.Insert, false, &out)
		}
		return out, true
	}
	if loc.Tree == nil && loc.List != nil {
		if o.List == nil {
			return out, false
		}
		model.MergeList(loc.List, o.List, o.Strategy(), &out)
		return out, true
	}
	if o.Tree == nil {
		return out, false
	}
	// A list entry as entry point is edited like a container.
	model.MergeTree(loc.Tree, o.Tree, o.Strategy(), false, &out)
	return out, true
}

// MarshalScenario is a helper for replay files.
func MarshalScenario(v interface{}) json.RawMessage {
	b, err := json.Marshal(v)
	if err != nil {
		panic(err)
	}
	return b
}
