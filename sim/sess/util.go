package sess

import (
	"runtime/debug"
	"strings"
)

// TopRepoFrame returns the function name of the innermost frame that belongs
// to the code under test, for use inside a deferred recover. Function names,
// not line numbers, identify a finding.
func TopRepoFrame() string {
	return TopRepoFrameOf(string(debug.Stack()))
}

func TopRepoFrameOf(stack string) string {
	lines := strings.Split(stack, "\n")
	seenPanic := false
	for _, l := range lines {
		if strings.HasPrefix(l, "panic(") {
			seenPanic = true
			continue
		}
		if !seenPanic {
			continue
		}
		if strings.HasPrefix(l, "\t") {
			continue
		}
		if strings.Contains(l, "github.com/freeconf/yang/") && !strings.Contains(l, "zzverifrt") {
			// strip arguments
			if i := strings.LastIndex(l, "("); i > 0 {
				l = l[:i]
			}
			l = strings.TrimPrefix(l, "github.com/freeconf/yang/")
			// drop closure numbering noise like .func1.2
			return l
		}
	}
	return "unknown"
}

// NormPanic renders a recovered value as a short stable string.
func NormPanic(p interface{}) string {
	var s string
	switch x := p.(type) {
	case error:
		s = x.Error()
	case string:
		s = x
	default:
		s = "non-string panic"
	}
	// keep the class, drop instance data
	for _, cut := range []string{"interface conversion", "index out of range", "nil pointer dereference", "slice bounds out of range", "reflect:", "invalid memory address"} {
		if strings.Contains(s, cut) {
			return cut
		}
	}
	if len(s) > 60 {
		s = s[:60]
	}
	return s
}

// ShortStack returns the in-repo frames of the current panic, innermost first.
func ShortStack() string {
	lines := strings.Split(string(debug.Stack()), "\n")
	var out []string
	seenPanic := false
	for i, l := range lines {
		if strings.HasPrefix(l, "panic(") {
			seenPanic = true
			continue
		}
		if !seenPanic || strings.HasPrefix(l, "\t") {
			continue
		}
		if strings.Contains(l, "github.com/freeconf/yang/") {
			loc := ""
			if i+1 < len(lines) {
				loc = strings.TrimSpace(lines[i+1])
				if j := strings.Index(loc, " +0x"); j > 0 {
					loc = loc[:j]
				}
			}
			if j := strings.LastIndex(l, "("); j > 0 {
				l = l[:j]
			}
			out = append(out, strings.TrimPrefix(l, "github.com/freeconf/yang/")+" "+loc)
			if len(out) >= 8 {
				break
			}
		}
	}
	return strings.Join(out, " <- ")
}
