package sess

import (
	"runtime"
	"runtime/debug"
	"strings"
)

// TopRepoFrame returns the function name of the innermost frame that belongs
// to the code under test, for use inside a deferred recover. Function names,
// not line numbers, identify a finding.
func TopRepoFrame() string {
	return TopRepoFrameOf(string(debug.Stack()))
}

func TopRepoFrameOf(stack string) string {
	lines := strings.Split(stack, "\n")
	seenPanic := false
	for _, l := range lines {
		if strings.HasPrefix(l, "panic(") {
			seenPanic = true
			continue
		}
		if !seenPanic {
			continue
		}
		if strings.HasPrefix(l, "\t") {
			continue
		}
		if strings.Contains(l, "github.com/freeconf/yang/") && !strings.Contains(l, "zzverifrt") {
			// strip arguments
			if i := strings.LastIndex(l, "("); i > 0 {
				l = l[:i]
			}
			l = strings.TrimPrefix(l, "github.com/freeconf/yang/")
			// drop closure numbering noise like .func1.2
			return l
		}
	}
	return "unknown"
}

// NormPanic renders a recovered value as a short stable string.
func NormPanic(p interface{}) string {
	var s string
	switch x := p.(type) {
	case error:
		s = x.Error()
	case string:
		s = x
	default:
		s = "non-string panic"
	}
	// keep the class, drop instance data
	for _, cut := range []string{"No value given to set", "interface conversion", "index out of range", "nil pointer dereference", "slice bounds out of range", "reflect:", "invalid memory address"} {
		if strings.Contains(s, cut) {
			return cut
		}
	}
	if len(s) > 60 {
		s = s[:60]
	}
	return s
}

// ShortStack returns the in-repo frames of the current panic, innermost first.
func ShortStack() string {
	lines := strings.Split(string(debug.Stack()), "\n")
	var out []string
	seenPanic := false
	for i, l := range lines {
		if strings.HasPrefix(l, "panic(") {
			seenPanic = true
			continue
		}
		if !seenPanic || strings.HasPrefix(l, "\t") {
			continue
		}
		if strings.Contains(l, "github.com/freeconf/yang/") {
			loc := ""
			if i+1 < len(lines) {
				loc = strings.TrimSpace(lines[i+1])
				if j := strings.Index(loc, " +0x"); j > 0 {
					loc = loc[:j]
				}
			}
			if j := strings.LastIndex(l, "("); j > 0 {
				l = l[:j]
			}
			out = append(out, strings.TrimPrefix(l, "github.com/freeconf/yang/")+" "+loc)
			if len(out) >= 8 {
				break
			}
		}
	}
	return strings.Join(out, " <- ")
}

// DeepRecursion returns the repo function that occurs more than min times on
// the current (panicking) stack, or "".
func DeepRecursion(min int) string {
	buf := make([]byte, 4<<20)
	buf = buf[:runtime.Stack(buf, false)]
	count := map[string]int{}
	best, bestN := "", 0
	for _, l := range strings.Split(string(buf), "\n") {
		if strings.HasPrefix(l, "\t") || !strings.HasPrefix(l, "github.com/freeconf/yang/") || strings.Contains(l, "zzverifrt") {
			continue
		}
		if j := strings.LastIndex(l, "("); j > 0 {
			l = l[:j]
		}
		l = strings.TrimPrefix(l, "github.com/freeconf/yang/")
		count[l]++
		if count[l] > bestN || (count[l] == bestN && l < best) {
			best, bestN = l, count[l]
		}
	}
	// the runtime prints only the innermost and outermost 50 frames of a deep
	// stack; a function that keeps recurring in that window of an elided trace
	// is an unbounded recursion
	if bestN > min && strings.Contains(string(buf), "frames elided") {
		return best
	}
	return ""
}

// RepoFrames lists the repo functions on the current (panicking) stack,
// innermost first.
func RepoFrames() []string {
	buf := make([]byte, 1<<20)
	buf = buf[:runtime.Stack(buf, false)]
	var out []string
	seenPanic := false
	for _, l := range strings.Split(string(buf), "\n") {
		if strings.HasPrefix(l, "panic(") {
			seenPanic = true
			continue
		}
		if !seenPanic || strings.HasPrefix(l, "\t") || !strings.HasPrefix(l, "github.com/freeconf/yang/") || strings.Contains(l, "zzverifrt") {
			continue
		}
		if j := strings.LastIndex(l, "("); j > 0 {
			l = l[:j]
		}
		out = append(out, strings.TrimPrefix(l, "github.com/freeconf/yang/"))
	}
	return out
}
