// Package dump renders a compiled *meta.Module canonically by calling every
// exported zero-argument method of every object reachable through those
// methods. Because it discovers accessors by reflection, an accessor added to
// the library later is covered without anyone listing it.
//
// Maps are rendered in key order; slices in their own order, except for the
// few accessors that return sets YANG gives no order (derived identities),
// which are rendered sorted so that the oracle does not demand more than the
// property states.
package dump

import (
	"fmt"
	"reflect"
	"sort"
	"strings"
)

// unorderedSets names accessors whose result is a set without a defined order.
var unorderedSets = map[string]bool{
	"DerivedDirect":    true,
	"DerivedDirectIds": true,
}

// skip names accessors that are not observations (they compute with side
// inputs or are the walk's own back edges rendered elsewhere).
var skip = map[string]bool{
	"String":   true, // fmt.Stringer output repeats other accessors
	"GoString": true,
}

// sink either keeps the text or only hashes it (FNV-1a).
type sink struct {
	keep bool
	sb   strings.Builder
	h    uint64
	n    int
}

func (k *sink) WriteString(s string) (int, error) {
	if k.keep {
		k.sb.WriteString(s)
	}
	for i := 0; i < len(s); i++ {
		k.h ^= uint64(s[i])
		k.h *= 1099511628211
	}
	k.n += len(s)
	return len(s), nil
}

func (k *sink) Write(p []byte) (int, error) { return k.WriteString(string(p)) }
func (k *sink) String() string              { return k.sb.String() }

type Dumper struct {
	b       sink
	seen    map[uintptr]int
	Objects int
	Calls   int
	MaxObjs int
	// OnPanic, when non-nil, receives accessor panics instead of re-panicking.
	Panics []string
	// TemplatePanics are accessor panics on objects reached only through
	// accessors that expose uncompiled templates (grouping bodies, augment
	// bodies): those objects are not part of the compiled schema tree.
	TemplatePanics []string
	inTemplate     int
	pkgPrefix      string
	root           uintptr
}

// templateAccessors expose pre-expansion statement templates.
// Refines are the instructions of a uses statement; a uses (and so its
// refines) survives only inside unexpanded bodies, including the body of an
// extension statement, and their accessors have Is…Set preconditions.
var templateAccessors = map[string]bool{"Groupings": true, "Augments": true, "Deviations": true, "Refinements": true}

// attributeTypes are the statement objects a definition carries (not
// definitions themselves). Written inside a grouping they are shared by every
// expanded copy of their owner and keep naming the statement in the grouping
// body as their parent, so their Parent() is a way into an unexpanded template.
var attributeTypes = map[string]bool{"*meta.Extension": true, "*meta.IfFeature": true, "*meta.Must": true, "*meta.When": true,
	"*meta.Type": true, "*meta.Enum": true, "*meta.Bit": true, "*meta.Range": true, "*meta.Pattern": true,
	// typedefs and groupings declared inside a node of a grouping are shared by the copies as well
	"*meta.Typedef": true, "*meta.Grouping": true}

func New() *Dumper {
	d := &Dumper{seen: map[uintptr]int{}, MaxObjs: 200000, pkgPrefix: "github.com/freeconf/yang/"}
	d.b.keep = true
	d.b.h = 14695981039346656037
	return d
}

// NewHashOnly does not keep the text; use Hash() afterwards.
func NewHashOnly() *Dumper {
	d := New()
	d.b.keep = false
	return d
}

// Hash is the FNV-1a hash of everything rendered so far.
func (d *Dumper) Hash() uint64 { return d.b.h }

// Len is the number of bytes rendered.
func (d *Dumper) Len() int { return d.b.n }

// Dump renders v (normally a *meta.Module).
func (d *Dumper) Dump(v interface{}) string {
	d.value(reflect.ValueOf(v), 0, "")
	return d.b.String()
}

func (d *Dumper) ind(n int) {
	for i := 0; i < n; i++ {
		d.b.WriteString(" ")
	}
}

func (d *Dumper) isRepoType(t reflect.Type) bool {
	for t.Kind() == reflect.Ptr {
		t = t.Elem()
	}
	return strings.HasPrefix(t.PkgPath(), d.pkgPrefix)
}

func (d *Dumper) value(v reflect.Value, depth int, via string) {
	if !v.IsValid() {
		d.b.WriteString("<invalid>")
		return
	}
	if depth > 200 {
		d.b.WriteString("<too deep>")
		return
	}
	switch v.Kind() {
	case reflect.Interface:
		if v.IsNil() {
			d.b.WriteString("nil")
			return
		}
		d.value(v.Elem(), depth, via)
	case reflect.Ptr:
		if v.IsNil() {
			d.b.WriteString("nil")
			return
		}
		if !d.isRepoType(v.Type()) {
			d.b.WriteString("&")
			d.value(v.Elem(), depth, via)
			return
		}
		d.object(v, depth)
	case reflect.Struct:
		if d.isRepoType(v.Type()) && v.NumMethod() > 0 {
			// value-receiver object: call its accessors without identity
			d.methods(v, depth, v.Type().String())
			return
		}
		fmt.Fprintf(&d.b, "%v", safeInterface(v))
	case reflect.Slice, reflect.Array:
		if v.Kind() == reflect.Slice && v.IsNil() {
			d.b.WriteString("[]")
			return
		}
		if v.Type().Elem().Kind() == reflect.Uint8 {
			fmt.Fprintf(&d.b, "%q", safeInterface(v))
			return
		}
		n := v.Len()
		d.b.WriteString("[")
		if !unorderedSets[via] {
			for i := 0; i < n; i++ {
				if i > 0 {
					d.b.WriteString(",")
				}
				d.value(v.Index(i), depth+1, via)
			}
			d.b.WriteString("]")
			return
		}
		// a set: visit (and number) its members in an order that does not
		// depend on how the library happened to build the slice
		idx := make([]int, n)
		keys := make([]string, n)
		for i := range idx {
			idx[i] = i
			keys[i] = identOf(v.Index(i))
		}
		sort.SliceStable(idx, func(a, b int) bool { return keys[idx[a]] < keys[idx[b]] })
		for k := 0; k < n; k++ {
			if k > 0 {
				d.b.WriteString(",")
			}
			d.value(v.Index(idx[k]), depth+1, via)
		}
		d.b.WriteString("]")
	case reflect.Map:
		if v.IsNil() {
			d.b.WriteString("{}")
			return
		}
		keys := v.MapKeys()
		sort.Slice(keys, func(i, j int) bool { return fmt.Sprint(safeInterface(keys[i])) < fmt.Sprint(safeInterface(keys[j])) })
		d.b.WriteString("{")
		for i, k := range keys {
			if i > 0 {
				d.b.WriteString(",")
			}
			fmt.Fprintf(&d.b, "%v:", safeInterface(k))
			d.value(v.MapIndex(k), depth+1, via)
		}
		d.b.WriteString("}")
	case reflect.Func, reflect.Chan, reflect.UnsafePointer:
		if v.IsNil() {
			d.b.WriteString("nil")
		} else {
			d.b.WriteString("<" + v.Kind().String() + ">")
		}
	case reflect.String:
		fmt.Fprintf(&d.b, "%q", v.String())
	default:
		fmt.Fprintf(&d.b, "%v", safeInterface(v))
	}
}

func safeInterface(v reflect.Value) interface{} {
	if v.CanInterface() {
		return v.Interface()
	}
	return "<unexported>"
}

func (d *Dumper) object(v reflect.Value, depth int) {
	p := v.Pointer()
	// Only the module that was loaded is walked. Modules it imports are
	// rendered by name: the loader compiles them only as far as the importing
	// module needs (identities, typedefs, groupings), and the property is about
	// walking the module that was returned.
	if v.Type().String() == "*meta.Module" {
		if d.root == 0 {
			d.root = p
		} else if p != d.root {
			name := "?"
			if m := v.MethodByName("Ident"); m.IsValid() {
				func() {
					defer func() { recover() }()
					name = m.Call(nil)[0].String()
				}()
			}
			d.b.WriteString("module(" + name + ")")
			return
		}
	}
	if id, ok := d.seen[p]; ok {
		fmt.Fprintf(&d.b, "#%d", id)
		return
	}
	id := len(d.seen)
	d.seen[p] = id
	d.Objects++
	if d.Objects > d.MaxObjs {
		d.b.WriteString("<object budget exceeded>")
		return
	}
	d.methods(v, depth, fmt.Sprintf("#%d %s", id, v.Type().String()))
}

func (d *Dumper) methods(v reflect.Value, depth int, head string) {
	t := v.Type()
	d.b.WriteString(head + "{\n")
	for i := 0; i < t.NumMethod(); i++ {
		m := t.Method(i)
		if skip[m.Name] || m.Type.NumIn() != 1 || m.Type.NumOut() == 0 {
			continue
		}
		if m.Name == "DefaultValue" || m.Name == "Default" {
			// documented precondition: only meaningful when HasDefault()
			if h := v.MethodByName("HasDefault"); h.IsValid() {
				ok := false
				func() {
					defer func() { recover() }()
					ok = h.Call(nil)[0].Bool()
				}()
				if !ok {
					continue
				}
			}
		}
		d.ind(depth + 1)
		d.b.WriteString(m.Name + "=")
		d.call(v, i, m.Name, depth+1)
		d.b.WriteString("\n")
	}
	d.ind(depth)
	d.b.WriteString("}")
}

func (d *Dumper) call(v reflect.Value, i int, name string, depth int) {
	defer func() {
		if p := recover(); p != nil {
			msg := fmt.Sprintf("%s.%s panicked: %v", v.Type(), name, p)
			if d.inTemplate > 0 {
				d.TemplatePanics = append(d.TemplatePanics, msg)
			} else {
				d.Panics = append(d.Panics, msg)
			}
			d.b.WriteString("<panic>")
		}
	}()
	// the body of an extension statement is kept as written, never expanded or compiled
	if templateAccessors[name] || (name == "Parent" && attributeTypes[v.Type().String()]) || v.Type().String() == "*meta.Extension" {
		d.inTemplate++
		defer func() { d.inTemplate-- }()
	}
	d.Calls++
	outs := v.Method(i).Call(nil)
	for j, o := range outs {
		if j > 0 {
			d.b.WriteString(" , ")
		}
		d.value(o, depth, name)
	}
}

// identOf returns Ident() of a value if it has one, else its printed form.
func identOf(v reflect.Value) (s string) {
	defer func() {
		if recover() != nil {
			s = "?"
		}
	}()
	for v.Kind() == reflect.Interface {
		v = v.Elem()
	}
	if m := v.MethodByName("Ident"); m.IsValid() && m.Type().NumIn() == 0 {
		return m.Call(nil)[0].String()
	}
	if v.Kind() == reflect.String {
		return v.String()
	}
	return fmt.Sprint(safeInterface(v))
}
