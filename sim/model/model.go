// Package model is the executable reference model of a YANG data tree: a
// container is a set of maps, a list an ordered slice of keyed entries. It
// implements the property statements (keyed deep merge, insert/update failure
// rules, choice exclusivity, delete/replace) with no cleverness, and is the
// oracle for the session simulator.
package model

import (
	"encoding/json"
	"fmt"
	"sort"
	"strings"

	"verif/sim/schema"
)

// Tree is a module root, a container or a list entry.
type Tree struct {
	S    *schema.Node        `json:"-"`
	Leaf map[string]string   `json:"leaf,omitempty"`
	LL   map[string][]string `json:"ll,omitempty"`
	Cont map[string]*Tree    `json:"cont,omitempty"`
	List map[string]*ListT   `json:"list,omitempty"`
}

type ListT struct {
	S       *schema.Node `json:"-"`
	Entries []*Tree      `json:"entries"`
}

func New(s *schema.Node) *Tree {
	return &Tree{S: s, Leaf: map[string]string{}, LL: map[string][]string{}, Cont: map[string]*Tree{}, List: map[string]*ListT{}}
}

// Bind attaches schema pointers after JSON decoding.
func (t *Tree) Bind(s *schema.Node) *Tree {
	t.S = s
	if t.Leaf == nil {
		t.Leaf = map[string]string{}
	}
	if t.LL == nil {
		t.LL = map[string][]string{}
	}
	if t.Cont == nil {
		t.Cont = map[string]*Tree{}
	}
	if t.List == nil {
		t.List = map[string]*ListT{}
	}
	for n, c := range t.Cont {
		c.Bind(s.Child(n))
	}
	for n, l := range t.List {
		l.S = s.Child(n)
		for _, e := range l.Entries {
			e.Bind(l.S)
		}
	}
	return t
}

func (t *Tree) Clone() *Tree {
	if t == nil {
		return nil
	}
	c := New(t.S)
	for k, v := range t.Leaf {
		c.Leaf[k] = v
	}
	for k, v := range t.LL {
		c.LL[k] = append([]string(nil), v...)
	}
	for k, v := range t.Cont {
		c.Cont[k] = v.Clone()
	}
	for k, v := range t.List {
		c.List[k] = v.Clone()
	}
	return c
}

func (l *ListT) Clone() *ListT {
	c := &ListT{S: l.S}
	for _, e := range l.Entries {
		c.Entries = append(c.Entries, e.Clone())
	}
	return c
}

func (t *Tree) Empty() bool {
	return len(t.Leaf) == 0 && len(t.LL) == 0 && len(t.Cont) == 0 && len(t.List) == 0
}

// Has reports whether data for the named data child is present.
func (t *Tree) Has(name string) bool {
	if _, ok := t.Leaf[name]; ok {
		return true
	}
	if _, ok := t.LL[name]; ok {
		return true
	}
	if _, ok := t.Cont[name]; ok {
		return true
	}
	if _, ok := t.List[name]; ok {
		return true
	}
	return false
}

func (t *Tree) Remove(name string) {
	delete(t.Leaf, name)
	delete(t.LL, name)
	delete(t.Cont, name)
	delete(t.List, name)
}

// Key returns the key tuple of a list entry.
func (t *Tree) Key() []string {
	var k []string
	for _, n := range t.S.Keys {
		k = append(k, t.Leaf[n])
	}
	return k
}

func KeyEq(a, b []string) bool {
	if len(a) != len(b) {
		return false
	}
	for i := range a {
		if a[i] != b[i] {
			return false
		}
	}
	return true
}

func (l *ListT) Find(key []string) (int, *Tree) {
	for i, e := range l.Entries {
		if KeyEq(e.Key(), key) {
			return i, e
		}
	}
	return -1, nil
}

// Size counts data nodes (leaves, leaf-lists, containers, entries).
func (t *Tree) Size() int {
	n := len(t.Leaf) + len(t.LL)
	for _, c := range t.Cont {
		n += 1 + c.Size()
	}
	for _, l := range t.List {
		for _, e := range l.Entries {
			n += 1 + e.Size()
		}
	}
	return n
}

// ---------------------------------------------------------------- rendering

// String is a canonical, order-preserving rendering used for comparison and
// in reports. Children appear in schema order; list entries in list order.
func (t *Tree) String() string {
	var b strings.Builder
	t.render(&b, false)
	return b.String()
}

// StringSorted renders with list entries sorted by key (for stores whose
// read order is key order by construction).
func (t *Tree) StringSorted() string {
	var b strings.Builder
	t.render(&b, true)
	return b.String()
}

func (t *Tree) render(b *strings.Builder, sorted bool) {
	b.WriteString("{")
	first := true
	sep := func() {
		if !first {
			b.WriteString(",")
		}
		first = false
	}
	for _, c := range t.S.DataChildren() {
		switch c.Kind {
		case schema.Leaf:
			if v, ok := t.Leaf[c.Name]; ok {
				sep()
				fmt.Fprintf(b, "%s=%q", c.Name, v)
			}
		case schema.LeafList:
			if v, ok := t.LL[c.Name]; ok {
				sep()
				fmt.Fprintf(b, "%s=%q", c.Name, v)
			}
		case schema.Container:
			if v, ok := t.Cont[c.Name]; ok {
				sep()
				b.WriteString(c.Name)
				v.render(b, sorted)
			}
		case schema.List:
			if v, ok := t.List[c.Name]; ok {
				sep()
				b.WriteString(c.Name + "[")
				es := v.Entries
				if sorted || c.MapList {
					es = append([]*Tree(nil), es...)
					sort.SliceStable(es, func(i, j int) bool {
						return strings.Join(es[i].Key(), "\x00") < strings.Join(es[j].Key(), "\x00")
					})
				}
				for i, e := range es {
					if i > 0 {
						b.WriteString(",")
					}
					e.render(b, sorted)
				}
				b.WriteString("]")
			}
		}
	}
	b.WriteString("}")
}

// Equal compares two trees; listsAsSets ignores entry order.
func Equal(a, b *Tree, listsAsSets bool) bool {
	if listsAsSets {
		return a.StringSorted() == b.StringSorted()
	}
	return a.String() == b.String()
}

// ---------------------------------------------------------------- JSON/XML text

func jsonScalar(s *schema.Node, v string) string {
	switch s.Type {
	case "int32", "int64", "uint8", "decimal64", "decimal64x", "boolean":
		return v
	}
	b, _ := json.Marshal(v)
	return string(b)
}

// JSON renders the tree as the document the library's JSON reader expects for
// a selection at this schema node.
func (t *Tree) JSON() string {
	var b strings.Builder
	t.json(&b)
	return b.String()
}

func (t *Tree) json(b *strings.Builder) {
	b.WriteString("{")
	first := true
	sep := func() {
		if !first {
			b.WriteString(",")
		}
		first = false
	}
	for _, c := range t.S.DataChildren() {
		switch c.Kind {
		case schema.Leaf:
			if v, ok := t.Leaf[c.Name]; ok {
				sep()
				fmt.Fprintf(b, "%q:%s", c.Name, jsonScalar(c, v))
			}
		case schema.LeafList:
			if v, ok := t.LL[c.Name]; ok {
				sep()
				fmt.Fprintf(b, "%q:[", c.Name)
				for i, x := range v {
					if i > 0 {
						b.WriteString(",")
					}
					b.WriteString(jsonScalar(c, x))
				}
				b.WriteString("]")
			}
		case schema.Container:
			if v, ok := t.Cont[c.Name]; ok {
				sep()
				fmt.Fprintf(b, "%q:", c.Name)
				v.json(b)
			}
		case schema.List:
			if v, ok := t.List[c.Name]; ok {
				sep()
				fmt.Fprintf(b, "%q:", c.Name)
				v.json(b)
			}
		}
	}
	b.WriteString("}")
}

func (l *ListT) json(b *strings.Builder) {
	b.WriteString("[")
	for i, e := range l.Entries {
		if i > 0 {
			b.WriteString(",")
		}
		e.json(b)
	}
	b.WriteString("]")
}

// ListJSON is the document for a selection at the list itself: {"name":[...]}.
func (l *ListT) JSON() string {
	var b strings.Builder
	fmt.Fprintf(&b, "{%q:", l.S.Name)
	l.json(&b)
	b.WriteString("}")
	return b.String()
}

func xmlEsc(s string) string {
	r := strings.NewReplacer("&", "&amp;", "<", "&lt;", ">", "&gt;")
	return r.Replace(s)
}

// XML renders <root>children</root> for a selection at this node.
func (t *Tree) XML(root string) string {
	var b strings.Builder
	fmt.Fprintf(&b, "<%s>", root)
	t.xmlBody(&b)
	fmt.Fprintf(&b, "</%s>", root)
	return b.String()
}

// XMLInterleaved renders the same document with the entries of every list
// (and the items of every leaf-list) interleaved with their following
// siblings, which RFC 7950 7.8.5 allows: the first entry at the list's own
// position, one more after each later sibling, the rest at the end.
func (t *Tree) XMLInterleaved(root string) string {
	var b strings.Builder
	fmt.Fprintf(&b, "<%s>", root)
	t.xmlBodyInterleaved(&b)
	fmt.Fprintf(&b, "</%s>", root)
	return b.String()
}

func (t *Tree) xmlBodyInterleaved(b *strings.Builder) {
	var pending [][]string // queues of rendered elements still to place
	flushOne := func() {
		for i := range pending {
			if len(pending[i]) > 0 {
				b.WriteString(pending[i][0])
				pending[i] = pending[i][1:]
			}
		}
	}
	for _, c := range t.S.DataChildren() {
		switch c.Kind {
		case schema.Leaf:
			if v, ok := t.Leaf[c.Name]; ok {
				fmt.Fprintf(b, "<%s>%s</%s>", c.Name, xmlEsc(v), c.Name)
				flushOne()
			}
		case schema.LeafList:
			if vs, ok := t.LL[c.Name]; ok && len(vs) > 0 {
				var q []string
				for _, x := range vs {
					q = append(q, fmt.Sprintf("<%s>%s</%s>", c.Name, xmlEsc(x), c.Name))
				}
				b.WriteString(q[0])
				flushOne()
				pending = append(pending, q[1:])
			}
		case schema.Container:
			if v, ok := t.Cont[c.Name]; ok {
				b.WriteString(v.XMLInterleaved(c.Name))
				flushOne()
			}
		case schema.List:
			if v, ok := t.List[c.Name]; ok && len(v.Entries) > 0 {
				var q []string
				for _, e := range v.Entries {
					q = append(q, e.XMLInterleaved(c.Name))
				}
				b.WriteString(q[0])
				flushOne()
				pending = append(pending, q[1:])
			}
		}
	}
	for _, q := range pending {
		for _, x := range q {
			b.WriteString(x)
		}
	}
}

func (t *Tree) xmlBody(b *strings.Builder) {
	for _, c := range t.S.DataChildren() {
		switch c.Kind {
		case schema.Leaf:
			if v, ok := t.Leaf[c.Name]; ok {
				fmt.Fprintf(b, "<%s>%s</%s>", c.Name, xmlEsc(v), c.Name)
			}
		case schema.LeafList:
			for _, x := range t.LL[c.Name] {
				fmt.Fprintf(b, "<%s>%s</%s>", c.Name, xmlEsc(x), c.Name)
			}
		case schema.Container:
			if v, ok := t.Cont[c.Name]; ok {
				b.WriteString(v.XML(c.Name))
			}
		case schema.List:
			if v, ok := t.List[c.Name]; ok {
				for _, e := range v.Entries {
					b.WriteString(e.XML(c.Name))
				}
			}
		}
	}
}

// ListXML is the document for a selection at the list itself.
func (l *ListT) XML() string {
	var b strings.Builder
	b.WriteString("<x>")
	for _, e := range l.Entries {
		b.WriteString(e.XML(l.S.Name))
	}
	b.WriteString("</x>")
	return b.String()
}

// ---------------------------------------------------------------- paths

type Step struct {
	Name string   `json:"name"`
	Key  []string `json:"key,omitempty"` // nil: the container, or the list itself
}

type Path []Step

func (p Path) String() string {
	var parts []string
	for _, s := range p {
		if s.Key != nil {
			parts = append(parts, s.Name+"="+strings.Join(s.Key, ","))
		} else {
			parts = append(parts, s.Name)
		}
	}
	return strings.Join(parts, "/")
}

// Loc is what a path resolves to.
type Loc struct {
	Parent *Tree  // the tree holding the addressed node (nil for the root)
	Tree   *Tree  // set when the path addresses the root, a container or a list entry
	List   *ListT // set when the path addresses a list itself
	S      *schema.Node
	Index  int // entry index when addressing a list entry
}

// Resolve walks the path; ok is false when something addressed is absent.
func (t *Tree) Resolve(p Path) (Loc, bool) {
	loc := Loc{Tree: t, S: t.S}
	cur := t
	for _, st := range p {
		s := cur.S.Child(st.Name)
		if s == nil {
			return Loc{}, false
		}
		switch s.Kind {
		case schema.Container:
			c, ok := cur.Cont[st.Name]
			if !ok {
				return Loc{Parent: cur, S: s}, false
			}
			loc = Loc{Parent: cur, Tree: c, S: s}
			cur = c
		case schema.List:
			l, ok := cur.List[st.Name]
			if !ok {
				return Loc{Parent: cur, S: s}, false
			}
			if st.Key == nil {
				loc = Loc{Parent: cur, List: l, S: s}
				// a list itself can only be the last step
				continue
			}
			i, e := l.Find(st.Key)
			if e == nil {
				return Loc{Parent: cur, List: l, S: s, Index: -1}, false
			}
			loc = Loc{Parent: cur, Tree: e, List: l, S: s, Index: i}
			cur = e
		default:
			return Loc{}, false
		}
	}
	return loc, true
}

// AllPaths lists every addressable container, list and list entry.
func (t *Tree) AllPaths() []Path {
	var out []Path
	var walk func(cur *Tree, pre Path)
	walk = func(cur *Tree, pre Path) {
		for _, c := range cur.S.DataChildren() {
			switch c.Kind {
			case schema.Container:
				if v, ok := cur.Cont[c.Name]; ok {
					p := append(append(Path(nil), pre...), Step{Name: c.Name})
					out = append(out, p)
					walk(v, p)
				}
			case schema.List:
				if v, ok := cur.List[c.Name]; ok {
					p := append(append(Path(nil), pre...), Step{Name: c.Name})
					out = append(out, p)
					for _, e := range v.Entries {
						pe := append(append(Path(nil), pre...), Step{Name: c.Name, Key: e.Key()})
						out = append(out, pe)
						walk(e, pe)
					}
				}
			}
		}
	}
	walk(t, nil)
	return out
}

// ---------------------------------------------------------------- edits

type Strategy int

const (
	Upsert Strategy = iota
	Insert
	Update
)

func (s Strategy) String() string { return [...]string{"upsert", "insert", "update"}[s] }

type ErrClass int

const (
	OK ErrClass = iota
	Conflict
	NotFound
)

func (e ErrClass) String() string { return [...]string{"ok", "conflict", "not-found"}[e] }

// Outcome of a model edit. DontCare is set when the property statement leaves
// the result open (an empty-but-present list or container at the inserted
// level); the oracle then accepts the store's answer and re-synchronises.
type Outcome struct {
	Err      ErrClass
	DontCare string
	// Where says at which level the failure condition arose: "entry-level"
	// (directly at the entry point) or "below-list-entry".
	Where string
}

// clearOtherCases enforces choice exclusivity: before data for schema node c
// is written into dst, data of every other case of every choice on c's case
// chain is removed.
func clearOtherCases(dst *Tree, c *schema.Node) {
	for _, cc := range c.CaseChain() {
		ch, cs := cc[0], cc[1]
		for _, other := range ch.Children {
			if other == cs {
				continue
			}
			for _, d := range other.DataChildren() {
				dst.Remove(d.Name)
			}
		}
	}
}

func applyDefaults(t *Tree) {
	for _, c := range t.S.DataChildren() {
		if c.Kind == schema.Leaf && c.Default != "" {
			if _, ok := t.Leaf[c.Name]; !ok {
				if len(c.CaseChain()) == 0 {
					t.Leaf[c.Name] = c.Default
				}
			}
		}
	}
}

// MergeTree merges src over dst (both at the same schema node, a module root,
// container or list entry). created says dst was just created by this edit.
func MergeTree(dst, src *Tree, st Strategy, created bool, out *Outcome) {
	for _, c := range src.S.DataChildren() {
		switch c.Kind {
		case schema.Leaf:
			if v, ok := src.Leaf[c.Name]; ok {
				if st == Upsert {
					clearOtherCases(dst, c)
				}
				dst.Leaf[c.Name] = v
			}
		case schema.LeafList:
			if v, ok := src.LL[c.Name]; ok {
				if st == Upsert {
					clearOtherCases(dst, c)
				}
				dst.LL[c.Name] = append([]string(nil), v...)
			}
		case schema.Container:
			sv, ok := src.Cont[c.Name]
			if !ok {
				continue
			}
			dv, exists := dst.Cont[c.Name]
			switch st {
			case Insert:
				if exists {
					if dv.Empty() {
						out.DontCare = "insert over empty-but-present container"
					}
					out.Err = Conflict
					return
				}
			case Update:
				if !exists {
					out.Err = NotFound
					return
				}
			case Upsert:
				clearOtherCases(dst, c)
			}
			newc := false
			if !exists {
				dv = New(c)
				dst.Cont[c.Name] = dv
				newc = true
			}
			MergeTree(dv, sv, st, newc, out)
			if out.Err != OK {
				return
			}
		case schema.List:
			sl, ok := src.List[c.Name]
			if !ok {
				continue
			}
			dl, exists := dst.List[c.Name]
			switch st {
			case Insert:
				if exists {
					if len(dl.Entries) == 0 {
						out.DontCare = "insert over empty-but-present list"
					}
					out.Err = Conflict
					return
				}
			case Update:
				if !exists {
					out.Err = NotFound
					return
				}
			case Upsert:
				clearOtherCases(dst, c)
			}
			if !exists {
				dl = &ListT{S: c}
				dst.List[c.Name] = dl
			}
			MergeList(dl, sl, st, out)
			if out.Err != OK {
				return
			}
		}
	}
	if created && st != Update {
		applyDefaults(dst)
	}
}

// MergeList merges entries of src into dst by key.
func MergeList(dst, src *ListT, st Strategy, out *Outcome) {
	for _, se := range src.Entries {
		_, de := dst.Find(se.Key())
		switch st {
		case Insert:
			if de != nil {
				out.Err = Conflict
				return
			}
		case Update:
			if de == nil {
				out.Err = NotFound
				return
			}
		}
		created := false
		if de == nil {
			de = New(dst.S)
			dst.Entries = append(dst.Entries, de)
			created = true
		}
		// Below a list entry the statement's strategy still applies: Update
		// requires addressed containers/entries to exist, Insert has nothing
		// left to collide with because the entry is new.
		below := st
		if st == Insert {
			below = Upsert
		}
		MergeTree(de, se, below, created, out)
		if out.Err != OK {
			if out.Where == "" {
				out.Where = "below-list-entry"
			}
			return
		}
	}
}

// Delete removes the addressed node. ok is false if it was not there.
func (t *Tree) Delete(p Path) bool {
	loc, ok := t.Resolve(p)
	if !ok || loc.Parent == nil {
		return false
	}
	last := p[len(p)-1]
	if loc.S.Kind == schema.List && last.Key != nil {
		loc.List.Entries = append(loc.List.Entries[:loc.Index:loc.Index], loc.List.Entries[loc.Index+1:]...)
		return true
	}
	loc.Parent.Remove(last.Name)
	return true
}

// ---------------------------------------------------------------- invariants

// TwoCases returns a description of the first choice instance that holds data
// of more than one case, or "".
func (t *Tree) TwoCases() string {
	var bad string
	var walk func(cur *Tree, at string)
	walk = func(cur *Tree, at string) {
		if bad != "" {
			return
		}
		for _, ch := range cur.S.Choices() {
			var with []string
			for _, cs := range ch.Children {
				for _, d := range cs.DataChildren() {
					if cur.Has(d.Name) {
						with = append(with, cs.Name)
						break
					}
				}
			}
			if len(with) > 1 {
				bad = fmt.Sprintf("%s choice %s holds data of cases %v", at, ch.Name, with)
				return
			}
		}
		for _, c := range cur.S.DataChildren() {
			switch c.Kind {
			case schema.Container:
				if v, ok := cur.Cont[c.Name]; ok {
					walk(v, at+"/"+c.Name)
				}
			case schema.List:
				if v, ok := cur.List[c.Name]; ok {
					for _, e := range v.Entries {
						walk(e, at+"/"+c.Name+"="+strings.Join(e.Key(), ","))
					}
				}
			}
		}
	}
	walk(t, "")
	return bad
}

// DupKeys returns a description of the first list holding two entries with
// equal keys, or "".
func (t *Tree) DupKeys() string {
	var bad string
	var walk func(cur *Tree, at string)
	walk = func(cur *Tree, at string) {
		for _, c := range cur.S.DataChildren() {
			if bad != "" {
				return
			}
			switch c.Kind {
			case schema.Container:
				if v, ok := cur.Cont[c.Name]; ok {
					walk(v, at+"/"+c.Name)
				}
			case schema.List:
				if v, ok := cur.List[c.Name]; ok {
					seen := map[string]bool{}
					for _, e := range v.Entries {
						k := strings.Join(e.Key(), "\x00")
						if seen[k] {
							bad = fmt.Sprintf("%s/%s has two entries with key %v", at, c.Name, e.Key())
							return
						}
						seen[k] = true
						walk(e, at+"/"+c.Name+"="+strings.Join(e.Key(), ","))
					}
				}
			}
		}
	}
	walk(t, "")
	return bad
}

// Diff names the first path at which a and b differ ("" if equal).
func Diff(a, b *Tree, listsAsSets bool) string {
	return diff(a, b, "", listsAsSets)
}

func diff(a, b *Tree, at string, sets bool) string {
	for _, c := range a.S.DataChildren() {
		p := at + "/" + c.Name
		switch c.Kind {
		case schema.Leaf:
			av, aok := a.Leaf[c.Name]
			bv, bok := b.Leaf[c.Name]
			if aok != bok || av != bv {
				return fmt.Sprintf("%s: %s vs %s", p, optS(av, aok), optS(bv, bok))
			}
		case schema.LeafList:
			av, aok := a.LL[c.Name]
			bv, bok := b.LL[c.Name]
			if aok != bok || strings.Join(av, "\x00") != strings.Join(bv, "\x00") {
				return fmt.Sprintf("%s: %v(%v) vs %v(%v)", p, av, aok, bv, bok)
			}
		case schema.Container:
			av, aok := a.Cont[c.Name]
			bv, bok := b.Cont[c.Name]
			if aok != bok {
				return fmt.Sprintf("%s: container present %v vs %v", p, aok, bok)
			}
			if aok {
				if d := diff(av, bv, p, sets); d != "" {
					return d
				}
			}
		case schema.List:
			av, aok := a.List[c.Name]
			bv, bok := b.List[c.Name]
			if aok != bok {
				return fmt.Sprintf("%s: list present %v vs %v", p, aok, bok)
			}
			if !aok {
				continue
			}
			if len(av.Entries) != len(bv.Entries) {
				return fmt.Sprintf("%s: %d entries vs %d", p, len(av.Entries), len(bv.Entries))
			}
			ae, be := av.Entries, bv.Entries
			if sets || c.MapList {
				ae = sortedEntries(ae)
				be = sortedEntries(be)
			}
			for i := range ae {
				if !KeyEq(ae[i].Key(), be[i].Key()) {
					return fmt.Sprintf("%s: entry %d key %v vs %v", p, i, ae[i].Key(), be[i].Key())
				}
				if d := diff(ae[i], be[i], p+"="+strings.Join(ae[i].Key(), ","), sets); d != "" {
					return d
				}
			}
		}
	}
	return ""
}

func sortedEntries(es []*Tree) []*Tree {
	es = append([]*Tree(nil), es...)
	sort.SliceStable(es, func(i, j int) bool {
		return strings.Join(es[i].Key(), "\x00") < strings.Join(es[j].Key(), "\x00")
	})
	return es
}

func optS(v string, ok bool) string {
	if !ok {
		return "<unset>"
	}
	return fmt.Sprintf("%q", v)
}

// SetAt replaces what the path addresses by the given subtree/list (used to
// build a source tree that holds exactly the payload at the entry point).
func (t *Tree) SetAt(p Path, sub *Tree, l *ListT) bool {
	if len(p) == 0 {
		if sub == nil {
			return false
		}
		*t = *sub.Clone()
		return true
	}
	loc, ok := t.Resolve(p[:len(p)-1])
	if !ok || loc.Tree == nil {
		return false
	}
	last := p[len(p)-1]
	s := loc.Tree.S.Child(last.Name)
	if s == nil {
		return false
	}
	switch {
	case s.Kind == schema.Container && sub != nil:
		loc.Tree.Cont[last.Name] = sub.Clone()
	case s.Kind == schema.List && last.Key == nil && l != nil:
		loc.Tree.List[last.Name] = l.Clone()
	case s.Kind == schema.List && last.Key != nil && sub != nil:
		lst := loc.Tree.List[last.Name]
		if lst == nil {
			lst = &ListT{S: s}
			loc.Tree.List[last.Name] = lst
		}
		if i, _ := lst.Find(last.Key); i >= 0 {
			lst.Entries[i] = sub.Clone()
		} else {
			lst.Entries = append(lst.Entries, sub.Clone())
		}
	default:
		return false
	}
	return true
}

// Without returns a clone with the addressed node removed (the complement of
// an operation's footprint).
func (t *Tree) Without(p Path) *Tree {
	c := t.Clone()
	if len(p) == 0 {
		return New(t.S)
	}
	c.Delete(p)
	return c
}

// DropEmptyLists removes lists without entries (present-but-empty and absent
// are not distinguished by every store).
func (t *Tree) DropEmptyLists() *Tree {
	for n, l := range t.List {
		if len(l.Entries) == 0 {
			delete(t.List, n)
			continue
		}
		for _, e := range l.Entries {
			e.DropEmptyLists()
		}
	}
	for _, c := range t.Cont {
		c.DropEmptyLists()
	}
	return t
}

// OldOrNew checks that every leaf of got holds the value it has in a or in b
// at the same place (entries matched by key), and that every list entry's key
// occurs in a or b. It returns a description of the first offender.
func OldOrNew(got, a, b *Tree, at string) string {
	pick := func(t *Tree, f func(*Tree) bool) bool { return t != nil && f(t) }
	for _, c := range got.S.DataChildren() {
		p := at + "/" + c.Name
		switch c.Kind {
		case schema.Leaf:
			v, ok := got.Leaf[c.Name]
			if !ok {
				continue
			}
			okA := pick(a, func(t *Tree) bool { x, h := t.Leaf[c.Name]; return h && x == v })
			okB := pick(b, func(t *Tree) bool { x, h := t.Leaf[c.Name]; return h && x == v })
			if !okA && !okB && v != c.Default {
				return fmt.Sprintf("%s holds %q which is neither the old nor the new value", p, v)
			}
		case schema.LeafList:
			v, ok := got.LL[c.Name]
			if !ok {
				continue
			}
			j := strings.Join(v, "\x00")
			okA := pick(a, func(t *Tree) bool { x, h := t.LL[c.Name]; return h && strings.Join(x, "\x00") == j })
			okB := pick(b, func(t *Tree) bool { x, h := t.LL[c.Name]; return h && strings.Join(x, "\x00") == j })
			if !okA && !okB {
				return fmt.Sprintf("%s holds %v which is neither the old nor the new value", p, v)
			}
		case schema.Container:
			g, ok := got.Cont[c.Name]
			if !ok {
				continue
			}
			var ca, cb *Tree
			if a != nil {
				ca = a.Cont[c.Name]
			}
			if b != nil {
				cb = b.Cont[c.Name]
			}
			if ca == nil && cb == nil {
				if !g.Empty() {
					return fmt.Sprintf("%s exists with content in neither the old nor the new tree", p)
				}
				continue
			}
			if d := OldOrNew(g, ca, cb, p); d != "" {
				return d
			}
		case schema.List:
			g, ok := got.List[c.Name]
			if !ok {
				continue
			}
			var la, lb *ListT
			if a != nil {
				la = a.List[c.Name]
			}
			if b != nil {
				lb = b.List[c.Name]
			}
			for _, e := range g.Entries {
				var ea, eb *Tree
				if la != nil {
					_, ea = la.Find(e.Key())
				}
				if lb != nil {
					_, eb = lb.Find(e.Key())
				}
				if ea == nil && eb == nil {
					// an entry whose key leaves were not (all) written yet
					complete := true
					for _, k := range c.Keys {
						if _, h := e.Leaf[k]; !h {
							complete = false
						}
					}
					if complete {
						return fmt.Sprintf("%s holds an entry with key %v that is in neither the old nor the new tree", p, e.Key())
					}
					continue
				}
				if d := OldOrNew(e, ea, eb, p+"="+strings.Join(e.Key(), ",")); d != "" {
					return d
				}
			}
		}
	}
	return ""
}
