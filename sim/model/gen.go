package model

import (
	"encoding/base64"
	"fmt"
	"strconv"
	"strings"

	"verif/sim/kit"
	"verif/sim/schema"
)

// GenOpts shapes generated data.
type GenOpts struct {
	NoZero     bool // never "", 0 or false (struct stores cannot tell them from unset)
	Nasty      bool // strings with quotes, control characters, non-ASCII, long runs
	MaxEntries int
	Density    int  // percent chance that an optional node is present
	KeyPool    int  // keys are drawn from a small pool so that histories overlap
	Budget     *int // remaining data nodes this tree may still get (nil: unlimited)
	EmptyLL    bool // a leaf-list may be present with zero items
	CommaKeys  bool // string key parts hold commas: ("a,b","c") and ("a","b,c") read alike once joined
}

// WithBudget returns o limited to n data nodes.
func (o GenOpts) WithBudget(n int) GenOpts {
	o.Budget = &n
	return o
}

func (o GenOpts) spend() bool {
	if o.Budget == nil {
		return true
	}
	if *o.Budget <= 0 {
		return false
	}
	*o.Budget--
	return true
}

func DefaultGen() GenOpts { return GenOpts{MaxEntries: 3, Density: 55, KeyPool: 4} }

// NastyStrings exercise the writer's escaping.
var NastyStrings = []string{"", " ", "a\"b", "back\\slash", "line\nfeed\ttab\r", "\x00", "\x01\x1f", "\x7f", "\u2028\u2029", "é", "日本語", "😀", "<>&'", "</script>", "\ufffd", "a\u0000b", "{}[],:", "  lead and trail  "}

var words = []string{"alpha", "bravo", "charlie", "delta", "echo", "fox", "golf", "hotel"}

// Value draws a value for a leaf.
func Value(r *kit.Rng, s *schema.Node, o GenOpts) string {
	switch s.Type {
	case "string":
		if o.Nasty && r.Chance(1, 4) {
			// a run of runes drawn from every class the escaper distinguishes:
			// each C0 control, DEL, quote, backslash, slash, <>&, U+2028/9, BMP, astral
			n := r.Range(1, 6)
			var b []rune
			for i := 0; i < n; i++ {
				switch r.Intn(8) {
				case 0, 1, 2:
					b = append(b, rune(r.Intn(0x20)))
				case 3:
					b = append(b, []rune{0x7f, '"', '\\', '/', '<', '>', '&', '\''}[r.Intn(8)])
				case 4:
					b = append(b, []rune{0x2028, 0x2029, 0x85, 0xa0, 0xfffd, 0xfeff}[r.Intn(6)])
				case 5:
					b = append(b, rune(0x100+r.Intn(0x2000)))
				case 6:
					b = append(b, rune(0x1f600+r.Intn(64)))
				default:
					b = append(b, rune('a'+r.Intn(26)))
				}
			}
			return string(b)
		}
		if o.Nasty && r.Chance(1, 2) {
			if r.Chance(1, 10) {
				return strings.Repeat(NastyStrings[r.Intn(len(NastyStrings))]+"x", r.Range(10, 400))
			}
			return NastyStrings[r.Intn(len(NastyStrings))]
		}
		if !o.NoZero && r.Chance(1, 12) {
			return ""
		}
		return words[r.Intn(len(words))] + fmt.Sprint(r.Intn(10))
	case "int32", "int64":
		if o.NoZero {
			return fmt.Sprint(r.Range(1, 500))
		}
		if o.Nasty && r.Chance(1, 4) {
			if s.Type == "int64" {
				return r.Pick([]string{"-9223372036854775808", "9223372036854775807", "9007199254740993"})
			}
			return r.Pick([]string{"-2147483648", "2147483647"})
		}
		return fmt.Sprint(r.Range(-50, 500))
	case "uint8":
		return r.Pick([]string{"0", "1", "200", "255", fmt.Sprint(r.Range(1, 200))})
	case "int8":
		return r.Pick([]string{"-128", "127", "0", "-1", fmt.Sprint(r.Range(-100, 100))})
	case "int16":
		return r.Pick([]string{"-32768", "32767", "0", fmt.Sprint(r.Range(-3000, 3000))})
	case "uint16":
		return r.Pick([]string{"65535", "0", fmt.Sprint(r.Range(0, 60000))})
	case "uint32":
		return r.Pick([]string{"4294967295", "0", "2147483648", fmt.Sprint(r.Range(0, 1000000))})
	case "uint64":
		return r.Pick([]string{"18446744073709551615", "0", "9223372036854775808", "9007199254740993", fmt.Sprint(r.Range(0, 1000000))})
	case "bits":
		var ls []string
		for _, b := range s.Bits {
			if r.Chance(1, 2) {
				ls = append(ls, b)
			}
		}
		if len(ls) == 0 {
			ls = []string{s.Bits[0]}
		}
		return strings.Join(ls, " ")
	case "binary":
		n := r.Range(0, 12)
		buf := make([]byte, n)
		for i := range buf {
			buf[i] = byte(r.Intn(256))
		}
		return base64.StdEncoding.EncodeToString(buf)
	case "anydata":
		if r.Chance(1, 3) {
			// a selection over a small tree of its own, rendered by a nested writer:
			// "@sel:<entries>:<string length>"
			return fmt.Sprintf("@sel:%d:%d", r.Intn(4), r.Pick3(3, 300, 5000))
		}
		return AnyJSON[r.Intn(len(AnyJSON))]
	case "empty":
		return ""
	case "identityref":
		return schema.Idents[r.Intn(len(schema.Idents))]
	case "union", "unione":
		if r.Chance(1, 2) {
			return fmt.Sprint(r.Range(-1000, 1000))
		}
		return words[r.Intn(len(words))]
	case "boolean":
		if o.NoZero {
			return "true"
		}
		return r.Pick([]string{"true", "false"})
	case "enum":
		return s.Enums[r.Intn(len(s.Enums))]
	case "decimal64":
		if o.Nasty && r.Chance(1, 3) {
			// many significant digits (all exactly representable with 2 fraction digits as float64)
			return r.Pick([]string{"1234.50", "123456789012.50", "16777217.25", "-99999999.75", "4503599627370.50", "0.25", "-0.50", "33554433.00"})
		}
		if o.Nasty && r.Chance(1, 8) {
			// magnitudes around and beyond what a 64-bit integer holds, whole numbers, negative zero's neighbours
			return r.Pick([]string{"9500000000000000000.00", "-9500000000000000000.00", "9223372036854775808.00", "9300000000000000000.00", "100.00", "-30000000000.00", "0.00", "-0.01", "0.01", "1000000.00"})
		}
		return fmt.Sprintf("%d.%02d", r.Range(1, 99), r.Intn(100))
	}
	return "x"
}

func keyValue(r *kit.Rng, s *schema.Node, o GenOpts) string {
	n := o.KeyPool
	if n <= 0 {
		n = 4
	}
	if s.Parent != nil && len(s.Parent.Keys) > 1 {
		// parts of a compound key come from pools whose members run into one another
		// when glued together: ("k1",21) and ("k12",1), ("k","1k") and ("k1","k")
		if n > len(confusableInts) {
			n = len(confusableInts)
		}
		if s.Type == "int32" {
			return confusableInts[r.Intn(n)]
		}
		if s.Type == "string" {
			if o.CommaKeys {
				return commaStrs[r.Intn(len(commaStrs))]
			}
			return confusableStrs[r.Intn(n)]
		}
	}
	if o.CommaKeys && s.Type == "string" {
		return commaStrs[r.Intn(len(commaStrs))]
	}
	switch s.Type {
	case "int32", "int64", "uint8":
		return fmt.Sprint(1 + r.Intn(n))
	case "enum":
		return s.Enums[r.Intn(len(s.Enums))]
	case "decimal64x":
		// eight fraction digits, neighbours that differ from the seventh digit on
		d := n
		if d > 9 {
			d = 9
		}
		return fmt.Sprintf("%d.5000000%d", 1+r.Intn(2), 1+r.Intn(d))
	case "decimal64":
		// neighbours less than 1 apart
		return fmt.Sprintf("%d.%s", 1+r.Intn(n/2+1), []string{"25", "50", "75"}[r.Intn(3)])
	}
	return "k" + fmt.Sprint(r.Intn(n))
}

// AnyJSON are values of anydata nodes.
var AnyJSON = []string{`{"a":1}`, `[1,"x",{"b":null}]`, `"str \" esc \\ \u2028"`, `12.5`, `true`, `null`, `{}`, `[]`,
	`{"nested":{"deep":[[],{}],"n":-0.5e3},"s":"\u00e9\ud83d\ude00","t":[true,false,null]}`, `[[[[1]]]]`, `{"k with space":"v","":0}`}

var confusableInts = []string{"1", "21", "12", "2", "121", "11"}
var confusableStrs = []string{"k1", "k12", "k", "1k", "k1k", "12"}
var commaStrs = []string{"a,b", "a", "b,c", "c", "b", "a,b,c", ",", "a,"}

// pickCases decides, per choice under s, which single case (if any) may hold
// data, so that generated trees are conforming.
func pickCases(r *kit.Rng, s *schema.Node) map[*schema.Node]bool {
	allowed := map[*schema.Node]bool{}
	var walk func(x *schema.Node, on bool)
	walk = func(x *schema.Node, on bool) {
		for _, c := range x.Children {
			switch c.Kind {
			case schema.Choice:
				pick := -1
				if on && r.Chance(3, 4) {
					pick = r.Intn(len(c.Children))
				}
				for i, cs := range c.Children {
					walk(cs, on && i == pick)
				}
			case schema.Case:
				walk(c, on)
			default:
				if on {
					allowed[c] = true
				}
			}
		}
	}
	walk(s, true)
	return allowed
}

// Random draws a conforming tree for schema node s (module, container or list
// entry). For an entry, key holds the key values to use (nil: draw them).
func Random(r *kit.Rng, s *schema.Node, o GenOpts, depth int) *Tree {
	t := New(s)
	allowed := pickCases(r, s)
	for _, c := range s.DataChildren() {
		if !allowed[c] {
			continue
		}
		if c.IsKey() {
			t.Leaf[c.Name] = keyValue(r, c, o)
			continue
		}
		if !r.Chance(o.Density, 100) {
			continue
		}
		if !o.spend() {
			continue
		}
		switch c.Kind {
		case schema.Leaf:
			t.Leaf[c.Name] = Value(r, c, o)
		case schema.LeafList:
			n := r.Range(1, 3)
			if o.Nasty && r.Chance(1, 12) {
				n = r.Pick3(30, 120, 400) // long arrays (buffers inside a writer fill up within one value)
			}
			vs := []string{}
			if o.EmptyLL && r.Chance(1, 6) {
				n = 0
			}
			seen := map[string]bool{}
			for i := 0; i < n; i++ {
				v := Value(r, c, GenOpts{NoZero: true, Nasty: o.Nasty})
				if v == "" {
					v = "x" // (the nasty pool holds the empty string; items stay non-zero)
				}
				if !seen[v] {
					seen[v] = true
					vs = append(vs, v)
				}
			}
			t.LL[c.Name] = vs
		case schema.Container:
			t.Cont[c.Name] = Random(r, c, o, depth+1)
		case schema.List:
			t.List[c.Name] = RandomList(r, c, o, depth+1)
		}
	}
	return t
}

func RandomList(r *kit.Rng, s *schema.Node, o GenOpts, depth int) *ListT {
	l := &ListT{S: s}
	n := r.Range(0, o.MaxEntries)
	if o.NoZero && n == 0 {
		n = 1
	}
	for i := 0; i < n; i++ {
		if !o.spend() {
			break
		}
		e := Random(r, s, o, depth)
		if _, dup := l.Find(e.Key()); dup != nil {
			continue
		}
		l.Entries = append(l.Entries, e)
	}
	return l
}

// Prune removes empty containers and empty lists (stores that cannot
// represent "present but empty" distinctly are compared after pruning).
func (t *Tree) Prune() *Tree {
	for n, c := range t.Cont {
		c.Prune()
		_ = n
	}
	for _, l := range t.List {
		for _, e := range l.Entries {
			e.Prune()
		}
	}
	return t
}

// FormatDecimal renders a decimal64 value canonically: two fraction digits
// when that is exact (the common declaration here), else eight.
func FormatDecimal(f float64) string {
	s2 := strconv.FormatFloat(f, 'f', 2, 64)
	if g, err := strconv.ParseFloat(s2, 64); err == nil && g == f {
		return s2
	}
	return strconv.FormatFloat(f, 'f', 8, 64)
}
