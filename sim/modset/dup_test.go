package modset

import (
	"regexp"
	"strings"
	"testing"

	"verif/sim/kit"
)

// a parent must never hold two uses of the same grouping
func TestNoDuplicateUses(t *testing.T) {
	re := regexp.MustCompile(`uses ([a-z0-9:]+)`)
	for seed := uint64(1); seed < 3000; seed++ {
		s := Generate(kit.NewRng(seed), 60)
		for name, text := range s.Files {
			var stack []map[string]bool
			stack = append(stack, map[string]bool{})
			for _, line := range strings.Split(text, "\n") {
				tr := strings.TrimSpace(line)
				if m := re.FindStringSubmatch(tr); m != nil && strings.HasPrefix(tr, "uses") {
					top := stack[len(stack)-1]
					if top[m[1]] {
						t.Fatalf("seed %d file %s: duplicate uses %s in one parent\n%s", seed, name, m[1], text)
					}
					top[m[1]] = true
				}
				opens := strings.Count(tr, "{") - strings.Count(tr, "}")
				for ; opens > 0; opens-- {
					stack = append(stack, map[string]bool{})
				}
				for ; opens < 0 && len(stack) > 1; opens++ {
					stack = stack[:len(stack)-1]
				}
			}
		}
	}
}
