// Package modset generates YANG module sets (main module, submodules,
// imported modules) that exercise every construct whose compilation walks a
// Go map: imports, includes, groupings used several times, augments, choices,
// identities with several derivations, typedef chains, features, rpcs and
// notifications. The generator keeps its own statement list and computes, by
// its own expansion, the order in which the data definitions must appear
// under every parent of the compiled tree.
package modset

import (
	"fmt"
	"sort"
	"strings"

	"verif/sim/kit"
)

type stmt struct {
	kind     string // container list leaf leaf-list choice case uses anydata
	name     string
	typ      string
	key      string
	children []*stmt
	refines  string  // refine statements of a uses (text)
	uses     string  // grouping name (possibly prefixed) for kind uses
	augment  []*stmt // uses-augment children appended to the first container of the grouping
	augTo    string
	extra    string // extra substatements text (description, config, when ...)
}

type grouping struct {
	name string
	body []*stmt
	mod  string
}

type Set struct {
	Main   string              `json:"main"`
	Files  map[string]string   `json:"files"`
	Expect map[string][]string `json:"expect"`          // parent path -> ordered data-definition idents
	Cases  map[string][]string `json:"cases"`           // choice path -> ordered case idents
	Feats  []string            `json:"feats,omitempty"` // features the main module declares
	Lists  map[string][]string `json:"lists"`           // "<kind>:<ident>" -> members in textual order (enum, bits, union, pattern, must, ext, iffeature, unique, key, default, idbase, rev)
	Stmts  int                 `json:"stmts"`
}

type gen struct {
	r     *kit.Rng
	seq   int
	n     int
	max   int
	grps  map[string]*grouping
	gname []string
	tdefs []string // typedef names usable in main (incl. prefixed)
	ids   []string
	facts map[string][]string // ordered member lists written so far
	feats []string            // features usable in if-feature (all on)
	exts  []string            // prefixed extension keywords usable as statements
	plain bool                // inside imported modules: no list facts (their prefixes/features are not in scope)
}

// perm returns the numbers of pool in seeded order.
func (g *gen) perm(pool []int) []int {
	out := append([]int(nil), pool...)
	for i := len(out) - 1; i > 0; i-- {
		j := g.r.Intn(i + 1)
		out[i], out[j] = out[j], out[i]
	}
	return out
}

// listyType writes a type whose members form an ordered list, in an order that
// no sorting by name, value or position reproduces, and records it.
func (g *gen) listyType(name string) string {
	switch g.r.Intn(4) {
	case 0:
		labels := []string{"hi", "mid", "lo", "zz", "aa"}[:g.r.Range(3, 5)]
		vals := g.perm([]int{1, 3, 7, 10, 20})
		var b strings.Builder
		b.WriteString("enumeration {")
		for i, l := range g.permStr(labels) {
			fmt.Fprintf(&b, " enum %s { value %d; }", l, vals[i])
			g.facts["enum:"+name] = append(g.facts["enum:"+name], l)
		}
		b.WriteString(" }")
		return b.String()
	case 1:
		labels := []string{"bx", "by", "ba", "bq"}[:g.r.Range(3, 4)]
		pos := g.perm([]int{0, 1, 2, 5})
		var b strings.Builder
		b.WriteString("bits {")
		for i, l := range g.permStr(labels) {
			fmt.Fprintf(&b, " bit %s { position %d; }", l, pos[i])
			g.facts["bits:"+name] = append(g.facts["bits:"+name], l)
		}
		b.WriteString(" }")
		return b.String()
	case 2:
		members := g.permStr([]string{"int32", "string", "boolean", "uint8"})[:g.r.Range(2, 4)]
		var b strings.Builder
		b.WriteString("union {")
		for _, m := range members {
			fmt.Fprintf(&b, " type %s;", m)
			g.facts["union:"+name] = append(g.facts["union:"+name], m)
		}
		b.WriteString(" }")
		return b.String()
	default:
		pats := g.permStr([]string{"[a-z]*", "[a-m].*", ".*", "[^0-9]*"})[:g.r.Range(2, 4)]
		var b strings.Builder
		b.WriteString("string {")
		for _, p := range pats {
			fmt.Fprintf(&b, " pattern \"%s\";", p)
			g.facts["pattern:"+name] = append(g.facts["pattern:"+name], p)
		}
		b.WriteString(" }")
		return b.String()
	}
}

func (g *gen) permStr(pool []string) []string {
	out := append([]string(nil), pool...)
	for i := len(out) - 1; i > 0; i-- {
		j := g.r.Intn(i + 1)
		out[i], out[j] = out[j], out[i]
	}
	return out
}

// listyExtra writes repeated substatements (must, if-feature, extension
// statements) on the node called name and records their order.
func (g *gen) listyExtra(name string) string {
	if g.plain {
		return ""
	}
	var parts []string
	if g.r.Chance(1, 6) {
		for _, e := range g.permStr([]string{"1 = 1", "2 > 1", "'a' != 'b'", "3 >= 2"})[:g.r.Range(2, 3)] {
			parts = append(parts, fmt.Sprintf("must \"%s\";", e))
			g.facts["must:"+name] = append(g.facts["must:"+name], e)
		}
	}
	if len(g.feats) >= 2 && g.r.Chance(1, 8) {
		for _, f := range g.permStr(g.feats)[:2] {
			parts = append(parts, fmt.Sprintf("if-feature %s;", f))
			g.facts["iffeature:"+name] = append(g.facts["iffeature:"+name], f)
		}
	}
	if len(g.exts) > 0 && g.r.Chance(1, 6) {
		for _, a := range g.permStr([]string{"a9", "a1", "a5", "a3"})[:g.r.Range(2, 4)] {
			e := g.exts[g.r.Intn(len(g.exts))]
			parts = append(parts, fmt.Sprintf("%s \"%s\";", e, a))
			g.facts["ext:"+name] = append(g.facts["ext:"+name], e[strings.Index(e, ":")+1:]+" "+a)
		}
	}
	return strings.Join(parts, " ")
}

func (g *gen) id(p string) string {
	g.seq++
	return fmt.Sprintf("%s%d", p, g.seq)
}

var leafTypes = []string{"string", "int32", "boolean", "uint8", "int64", "decimal64 { fraction-digits 2; }", "enumeration { enum a; enum b; enum c; }", "bits { bit x; bit y; }", "empty", "binary"}

func (g *gen) leafType() string {
	if len(g.tdefs) > 0 && g.r.Chance(1, 3) {
		return g.tdefs[g.r.Intn(len(g.tdefs))]
	}
	if len(g.ids) > 0 && g.r.Chance(1, 8) {
		return "identityref { base " + g.ids[g.r.Intn(len(g.ids))] + "; }"
	}
	return leafTypes[g.r.Intn(len(leafTypes))]
}

func (g *gen) extra() string {
	var parts []string
	if g.r.Chance(1, 4) {
		parts = append(parts, fmt.Sprintf("description \"d%d\";", g.r.Intn(100)))
	}
	if g.r.Chance(1, 8) {
		parts = append(parts, "reference \"r\";")
	}
	if g.r.Chance(1, 10) {
		parts = append(parts, "status deprecated;")
	}
	return strings.Join(parts, " ")
}

func (g *gen) leaf() *stmt {
	g.n++
	name := g.id("f")
	typ := ""
	if !g.plain && g.r.Chance(1, 4) {
		typ = g.listyType(name)
	} else {
		typ = g.leafType()
	}
	return &stmt{kind: "leaf", name: name, typ: typ, extra: strings.TrimSpace(g.extra() + " " + g.listyExtra(name))}
}

func (g *gen) body(depth int, allowUses bool) []*stmt {
	var out []*stmt
	n := g.r.Range(1, 5)
	if g.n >= g.max {
		return []*stmt{g.leaf()}
	}
	for i := 0; i < n && g.n < g.max; i++ {
		x := g.r.Intn(14)
		switch {
		case x < 5:
			out = append(out, g.leaf())
		case x < 6:
			g.n++
			ll := &stmt{kind: "leaf-list", name: g.id("ll"), typ: g.r.Pick([]string{"string", "int32", "uint16"}), extra: g.extra()}
			if !g.plain && g.r.Chance(1, 4) {
				for _, d := range g.perm([]int{5, 1, 9, 3})[:g.r.Range(2, 4)] {
					ll.extra += fmt.Sprintf(" default %d;", d)
					g.facts["default:"+ll.name] = append(g.facts["default:"+ll.name], fmt.Sprint(d))
				}
			}
			out = append(out, ll)
		case x < 8 && depth < 3:
			g.n++
			c := &stmt{kind: "container", name: g.id("c"), extra: g.extra()}
			c.extra = strings.TrimSpace(c.extra + " " + g.listyExtra(c.name))
			c.children = g.body(depth+1, allowUses)
			out = append(out, c)
		case x < 10 && depth < 3:
			g.n++
			l := &stmt{kind: "list", name: g.id("l")}
			k := &stmt{kind: "leaf", name: g.id("k"), typ: g.r.Pick([]string{"string", "int32"})}
			l.key = k.name
			keys := []*stmt{k}
			if !g.plain && g.r.Chance(1, 3) {
				// compound key whose order differs from the order of the key leaves themselves
				k2 := &stmt{kind: "leaf", name: g.id("k"), typ: "string"}
				k3 := &stmt{kind: "leaf", name: g.id("k"), typ: "int32"}
				keys = []*stmt{k, k2, k3}
				order := g.permStr([]string{k.name, k2.name, k3.name})
				l.key = strings.Join(order, " ")
				g.facts["key:"+l.name] = order
			}
			body := g.body(depth+1, allowUses)
			l.children = append(keys, body...)
			if g.r.Chance(1, 3) {
				l.extra = "ordered-by user; min-elements 0; max-elements 50;"
			}
			if !g.plain {
				var plainLeaves []string
				for _, c := range body {
					if c.kind == "leaf" {
						plainLeaves = append(plainLeaves, c.name)
					}
				}
				if len(plainLeaves) >= 2 && g.r.Chance(1, 2) {
					pl := g.permStr(plainLeaves)
					l.extra += fmt.Sprintf(" unique \"%s\"; unique \"%s\";", pl[0], pl[1])
					g.facts["unique:"+l.name] = []string{pl[0], pl[1]}
				}
			}
			out = append(out, l)
		case x < 11 && depth < 3:
			g.n++
			ch := &stmt{kind: "choice", name: g.id("ch")}
			nc := g.r.Range(2, 4)
			for j := 0; j < nc; j++ {
				cs := &stmt{kind: "case", name: g.id("cs")}
				cs.children = append(cs.children, g.leaf())
				if g.r.Chance(1, 2) {
					cs.children = append(cs.children, g.leaf())
				}
				if g.r.Chance(1, 4) && depth < 2 {
					g.n++
					c := &stmt{kind: "container", name: g.id("c")}
					c.children = g.body(depth+2, allowUses)
					cs.children = append(cs.children, c)
				}
				ch.children = append(ch.children, cs)
			}
			out = append(out, ch)
		case x < 13 && allowUses && len(g.gname) > 0:
			g.n++
			u := &stmt{kind: "uses", uses: g.gname[g.r.Intn(len(g.gname))]}
			out = append(out, u)
		case x == 13:
			g.n++
			out = append(out, &stmt{kind: "anydata", name: g.id("any")})
		default:
			out = append(out, g.leaf())
		}
	}
	return out
}

// groupingBody avoids name clashes between two uses of the same grouping in
// one parent by being used at most once per parent (enforced at expansion).
func (g *gen) newGrouping(mod, prefix string, allowUses bool) {
	name := g.id("grp")
	gr := &grouping{name: name, mod: mod}
	gr.body = g.body(2, allowUses)
	ref := name
	if prefix != "" {
		ref = prefix + ":" + name
	}
	g.grps[ref] = gr
	if prefix == "" {
		g.grps[name] = gr
	}
	g.gname = append(g.gname, ref)
}

func emit(b *strings.Builder, d int, ss []*stmt) {
	for _, s := range ss {
		ind := strings.Repeat("  ", d)
		switch s.kind {
		case "leaf", "leaf-list":
			t := s.typ + ";"
			if strings.HasSuffix(s.typ, "}") {
				t = s.typ
			}
			fmt.Fprintf(b, "%s%s %s { type %s %s }\n", ind, s.kind, s.name, t, s.extra)
		case "anydata":
			fmt.Fprintf(b, "%sanydata %s;\n", ind, s.name)
		case "uses":
			if len(s.augment) == 0 && s.refines != "" {
				fmt.Fprintf(b, "%suses %s { %s }\n", ind, s.uses, s.refines)
			} else if len(s.augment) == 0 {
				fmt.Fprintf(b, "%suses %s;\n", ind, s.uses)
			} else {
				fmt.Fprintf(b, "%suses %s {\n%s  augment \"%s\" {\n", ind, s.uses, ind, s.augTo)
				emit(b, d+2, s.augment)
				fmt.Fprintf(b, "%s  }\n%s}\n", ind, ind)
			}
		case "list":
			fmt.Fprintf(b, "%slist %s {\n%s  key \"%s\"; %s\n", ind, s.name, ind, s.key, s.extra)
			emit(b, d+1, s.children)
			fmt.Fprintf(b, "%s}\n", ind)
		default:
			fmt.Fprintf(b, "%s%s %s {\n", ind, s.kind, s.name)
			if s.extra != "" {
				fmt.Fprintf(b, "%s  %s\n", ind, s.extra)
			}
			emit(b, d+1, s.children)
			fmt.Fprintf(b, "%s}\n", ind)
		}
	}
}

// node is the generator's own expansion of the compiled data tree.
type node struct {
	name     string
	kind     string
	children []*node
}

func (g *gen) expand(ss []*stmt) []*node {
	var out []*node
	for _, s := range ss {
		switch s.kind {
		case "uses":
			gr := g.grps[s.uses]
			sub := g.expand(gr.body)
			if len(s.augment) > 0 {
				for _, n := range sub {
					if n.name == s.augTo {
						n.children = append(n.children, g.expand(s.augment)...)
					}
				}
			}
			out = append(out, sub...)
		default:
			n := &node{name: s.name, kind: s.kind}
			n.children = g.expand(s.children)
			out = append(out, n)
		}
	}
	return out
}

func hasDup(ns []*node) bool {
	seen := map[string]bool{}
	var walk func(ns []*node) bool
	walk = func(ns []*node) bool {
		// choice/case levels do not open a new namespace
		var flat func(ns []*node, add func(string) bool) bool
		flat = func(ns []*node, add func(string) bool) bool {
			for _, n := range ns {
				if n.kind == "choice" || n.kind == "case" {
					if add(n.name + "#" + n.kind) {
						return true
					}
					if flat(n.children, add) {
						return true
					}
				} else if add(n.name) {
					return true
				}
			}
			return false
		}
		local := map[string]bool{}
		if flat(ns, func(s string) bool {
			if local[s] {
				return true
			}
			local[s] = true
			return false
		}) {
			return true
		}
		var below func(n *node) bool
		below = func(n *node) bool {
			if n.kind == "choice" || n.kind == "case" {
				// same namespace as the parent (checked by flat); descend to the data nodes
				for _, c := range n.children {
					if below(c) {
						return true
					}
				}
				return false
			}
			return walk(n.children)
		}
		for _, n := range ns {
			if below(n) {
				return true
			}
		}
		return false
	}
	_ = seen
	return walk(ns)
}

func record(set *Set, path string, ns []*node) {
	recordAs(set, path, path, ns)
}

// recordAs stores the top level under key and nested levels under path.
func recordAs(set *Set, key, path string, ns []*node) {
	var ids []string
	for _, n := range ns {
		ids = append(ids, n.name)
	}
	set.Expect[key] = ids
	for _, n := range ns {
		p := n.name
		if path != "" {
			p = path + "/" + n.name
		}
		switch n.kind {
		case "choice":
			var cs []string
			for _, c := range n.children {
				cs = append(cs, c.name)
			}
			set.Cases[p] = cs
			for _, c := range n.children {
				record(set, p+"/"+c.name, c.children)
			}
		case "container", "list":
			record(set, p, n.children)
		}
	}
}

// Generate draws a module set.
func Generate(r *kit.Rng, maxStmts int) *Set {
	for attempt := 0; ; attempt++ {
		if s := generate(r, maxStmts); s != nil {
			return s
		}
	}
}

func generate(r *kit.Rng, maxStmts int) *Set {
	g := &gen{r: r, max: maxStmts, grps: map[string]*grouping{}, facts: map[string][]string{}, plain: true}
	set := &Set{Main: "m", Files: map[string]string{}, Expect: map[string][]string{}, Cases: map[string][]string{}}

	// imported modules g1, g2: typedef chains, identities, groupings
	nImp := r.Range(1, 3)
	var impNames []string
	for i := 1; i <= nImp; i++ {
		name := fmt.Sprintf("g%d", i)
		impNames = append(impNames, name)
		var b strings.Builder
		fmt.Fprintf(&b, "module %s {\n  namespace \"urn:verif:%s\";\n  prefix %s;\n  revision 2024-01-0%d { description \"r\"; }\n", name, name, name, i)
		// typedef chain
		t1, t2, t3 := g.id("t"), g.id("t"), g.id("t")
		fmt.Fprintf(&b, "  typedef %s { type int32 { range \"0..100\"; } default 7; units u; }\n", t1)
		fmt.Fprintf(&b, "  typedef %s { type %s { range \"1..50\"; } }\n", t2, t1)
		fmt.Fprintf(&b, "  typedef %s { type string { length \"1..20\"; pattern \"[a-z]*\"; } }\n", t3)
		// identities with several derivations (not in every imported module: a
		// pure types-and-groupings module is the common case)
		base := ""
		if i == 1 || r.Chance(1, 2) {
			base = g.id("id")
			fmt.Fprintf(&b, "  identity %s;\n", base)
			prev := base
			for j := 0; j < r.Range(2, 5); j++ {
				d := g.id("id")
				b2 := prev
				if r.Chance(1, 2) {
					b2 = base
				}
				fmt.Fprintf(&b, "  identity %s { base %s; }\n", d, b2)
				prev = d
			}
		}
		fmt.Fprintf(&b, "  feature %s;\n  feature %s;\n", g.id("ft"), g.id("ft"))
		extName := g.id("ext")
		fmt.Fprintf(&b, "  extension %s { argument a; }\n", extName)
		g.exts = append(g.exts, name+":"+extName)
		saveT, saveI := g.tdefs, g.ids
		g.tdefs = []string{t1, t2, t3}
		g.ids = nil
		if base != "" {
			g.ids = []string{base}
		}
		savedNames := g.gname
		g.gname = nil
		for j := 0; j < r.Range(1, 3); j++ {
			g.newGrouping(name, name, false)
		}
		local := g.gname
		g.gname = savedNames
		for _, ref := range local {
			gr := g.grps[ref]
			fmt.Fprintf(&b, "  grouping %s {\n", gr.name)
			emit(&b, 2, gr.body)
			b.WriteString("  }\n")
			g.gname = append(g.gname, ref)
		}
		b.WriteString("}\n")
		set.Files[name] = b.String()
		g.tdefs = append(saveT, name+":"+t1, name+":"+t2, name+":"+t3)
		g.ids = saveI
		if base != "" {
			g.ids = append(g.ids, name+":"+base)
		}
	}

	// main module
	var mb strings.Builder
	mb.WriteString("module m {\n  namespace \"urn:verif:m\";\n  prefix m;\n")
	for _, n := range impNames {
		fmt.Fprintf(&mb, "  import %s { prefix %s; }\n", n, n)
	}
	nSub := r.Range(0, 2)
	// with two submodules, s2 may be included by s1 instead of by the main module
	nested := nSub == 2 && r.Chance(1, 2)
	for i := 1; i <= nSub; i++ {
		if nested && i == 2 {
			continue
		}
		fmt.Fprintf(&mb, "  include s%d;\n", i)
	}
	// (carriage returns inside quoted arguments: the text is the text, whichever way it is handed to the loader)
	mb.WriteString("  organization \"o\r\nsecond line\"; contact \"c\rd\"; description \"main\";\n  revision 2024-02-02;\n  revision 2023-01-01;\n")
	// local typedefs, identities, features
	lt := g.id("t")
	fmt.Fprintf(&mb, "  typedef %s { type %s; }\n", lt, g.tdefs[r.Intn(len(g.tdefs))])
	g.max += maxStmts // the main module gets its own budget
	g.tdefs = append(g.tdefs, lt)
	for i := 0; i < r.Range(1, 4); i++ {
		fmt.Fprintf(&mb, "  identity %s { base %s; }\n", g.id("id"), g.ids[r.Intn(len(g.ids))])
	}
	if len(g.ids) >= 2 {
		// an identity with several bases, written in an order of their own
		idn := g.id("id")
		bases := g.permStr(g.ids)
		fmt.Fprintf(&mb, "  identity %s {", idn)
		for _, b := range bases {
			fmt.Fprintf(&mb, " base %s;", b)
			g.facts["idbase:"+idn] = append(g.facts["idbase:"+idn], b[strings.Index(b, ":")+1:])
		}
		mb.WriteString(" }\n")
	}
	f1 := g.id("ft")
	f2 := g.id("ft")
	f3 := g.id("ft")
	fmt.Fprintf(&mb, "  feature %s;\n  feature %s { if-feature %s; }\n  feature %s;\n", f1, f2, f1, f3)
	g.feats = []string{f1, f2, f3}
	g.facts["rev:m"] = []string{"2024-02-02", "2023-01-01"}
	g.plain = false
	// local groupings (may use imported groupings)
	for i := 0; i < r.Range(1, 3); i++ {
		before := len(g.gname)
		g.newGrouping("m", "", true)
		gr := g.grps[g.gname[before]]
		fmt.Fprintf(&mb, "  grouping %s {\n", gr.name)
		emit(&mb, 2, gr.body)
		mb.WriteString("  }\n")
	}
	top := g.body(0, true)
	// make sure some grouping is used at least twice, in different parents
	if len(g.gname) > 0 {
		ref := g.gname[r.Intn(len(g.gname))]
		for i := 0; i < 2; i++ {
			g.n++
			c := &stmt{kind: "container", name: g.id("c")}
			u := &stmt{kind: "uses", uses: ref}
			// several refines of one uses, one of them guarded by a feature: with that
			// feature off the others must still be applied, the same ones on every load
			var leaves []string
			for _, b := range g.grps[ref].body {
				if b.kind == "leaf" && !strings.Contains(b.typ, "{") {
					leaves = append(leaves, b.name)
				}
			}
			if len(leaves) >= 2 && len(g.feats) > 0 {
				for li, ln := range leaves {
					guard := ""
					if li == i%len(leaves) {
						guard = "if-feature " + g.feats[len(g.feats)-1] + "; "
					}
					u.refines += fmt.Sprintf("refine %s { %sdescription \"refined %d\"; } ", ln, guard, li)
				}
			}
			c.children = []*stmt{g.leaf(), u, g.leaf()}
			top = append(top, c)
		}
	}
	emit(&mb, 1, top)
	// rpcs and notifications
	type rp struct {
		name    string
		in, out []*stmt
	}
	var rpcs []rp
	scoped := []string{"int32 { range \"0..9\"; } default 3; units sev", "decimal64 { fraction-digits 1; } default 99.5; units pct", "string { length \"1..8\"; } default abc", "uint8"}
	for i := 0; i < r.Range(1, 3); i++ {
		x := rp{name: g.id("rpc")}
		x.in = g.body(2, true)
		x.out = g.body(2, false)
		// a typedef of the same name in every rpc's input scope: lookups must respect scope
		lvl := &stmt{kind: "leaf", name: g.id("f"), typ: "level"}
		x.in = append(x.in, lvl)
		rpcs = append(rpcs, x)
		fmt.Fprintf(&mb, "  rpc %s {\n    input {\n      typedef level { type %s; }\n", x.name, scoped[i%len(scoped)])
		emit(&mb, 3, x.in)
		mb.WriteString("    }\n    output {\n")
		emit(&mb, 3, x.out)
		mb.WriteString("    }\n  }\n")
	}
	type nt struct {
		name string
		body []*stmt
	}
	var notifs []nt
	for i := 0; i < r.Range(1, 3); i++ {
		x := nt{name: g.id("ntf")}
		x.body = g.body(2, true)
		x.body = append(x.body, &stmt{kind: "leaf", name: g.id("f"), typ: "level"})
		notifs = append(notifs, x)
		fmt.Fprintf(&mb, "  notification %s {\n    typedef level { type %s; }\n", x.name, scoped[(i+2)%len(scoped)])
		emit(&mb, 2, x.body)
		mb.WriteString("  }\n")
	}
	// module-level augments into top-level containers, in textual order
	rootNodes := g.expand(top)
	if hasDup(rootNodes) {
		return nil // checked here, before a deviation removes a subtree from the expectation
	}
	var targets []*node
	for _, n := range rootNodes {
		if n.kind == "container" {
			targets = append(targets, n)
		}
	}
	for i := 0; i < r.Range(0, 3) && len(targets) > 0; i++ {
		t := targets[r.Intn(len(targets))]
		add := []*stmt{g.leaf()}
		if r.Chance(1, 2) {
			add = append(add, g.leaf())
		}
		fmt.Fprintf(&mb, "  augment \"/%s\" {\n", t.name)
		emit(&mb, 2, add)
		mb.WriteString("  }\n")
		t.children = append(t.children, g.expand(add)...)
	}
	// a module-level augment of a top-level choice whose body is a uses: every node of
	// the grouping becomes a (shorthand) case of its own, after the written cases
	for _, n := range rootNodes {
		if n.kind == "choice" && r.Chance(1, 2) {
			gname := g.id("grp")
			l1, l2 := g.id("f"), g.id("f")
			fmt.Fprintf(&mb, "  grouping %s { leaf %s { type string; } leaf %s { type int32; } }\n", gname, l1, l2)
			fmt.Fprintf(&mb, "  augment \"/%s\" { uses %s; }\n", n.name, gname)
			for _, ln := range []string{l1, l2} {
				n.children = append(n.children, &node{name: ln, kind: "case", children: []*node{{name: ln, kind: "leaf"}}})
			}
			break
		}
	}
	// deviations: remove one child that has at least two later siblings
	for _, t := range targets {
		if len(t.children) >= 4 && r.Chance(1, 2) {
			k := r.Intn(len(t.children) - 2)
			victim := t.children[k]
			if victim.kind == "choice" || victim.kind == "case" {
				continue
			}
			fmt.Fprintf(&mb, "  deviation \"/%s/%s\" { deviate not-supported; }\n", t.name, victim.name)
			t.children = append(t.children[:k:k], t.children[k+1:]...)
			break
		}
	}
	mb.WriteString("}\n")
	set.Files["m"] = mb.String()

	// submodules: their own top-level statements (order relative to the main
	// module's is not something YANG defines; Expect[""] covers the main file,
	// ExpectSub the submodule files)
	var subRoots [][]*node
	var subFeats []string
	// with two submodules both included by the main module, each may augment one
	// top-level container of the main module: the children they add keep the order
	// of the include statements
	var subAugTarget *node
	var subAugKids []string
	if nSub == 2 && !nested && len(targets) > 0 && r.Chance(2, 3) {
		subAugTarget = targets[r.Intn(len(targets))]
	}
	for i := 1; i <= nSub; i++ {
		var b strings.Builder
		fmt.Fprintf(&b, "submodule s%d {\n  belongs-to m { prefix m; }\n", i)
		var dated []string
		for ni, n := range impNames {
			if r.Chance(1, 3) {
				dated = append(dated, n)
				// the same module, here with the revision it has: still one module, loaded once
				fmt.Fprintf(&b, "  import %s { prefix %s; revision-date 2024-01-0%d; }\n", n, n, ni+1)
			} else {
				fmt.Fprintf(&b, "  import %s { prefix %s; }\n", n, n)
			}
		}
		if nested && i == 1 {
			b.WriteString("  include s2;\n")
		}
		subFeat := g.id("ft")
		subFeats = append(subFeats, subFeat)
		fmt.Fprintf(&b, "  typedef %s { type string; }\n  identity %s;\n  feature %s;\n", g.id("t"), g.id("id"), subFeat)
		saveT := g.tdefs
		if nested && i == 2 {
			// a submodule reached only through another submodule's include does not
			// see the main module's own typedefs in this library (nor in YANG 1.0)
			var vis []string
			for _, t := range g.tdefs {
				if strings.Contains(t, ":") {
					vis = append(vis, t)
				}
			}
			g.tdefs = vis
		}
		saveF := g.feats
		g.feats = nil // features of the main module are referenced from the main module only
		body := g.body(1, false)
		// what this file sees through an import that names a revision is the module everybody else sees
		for _, n := range dated {
			for _, id := range g.ids {
				if strings.HasPrefix(id, n+":") {
					g.n++
					body = append(body, &stmt{kind: "leaf", name: g.id("f"), typ: "identityref { base " + id + "; }"})
					break
				}
			}
		}
		g.feats = saveF
		g.tdefs = saveT
		emit(&b, 1, body)
		if subAugTarget != nil {
			savePlain := g.plain
			g.plain = true
			add := []*stmt{g.leaf(), g.leaf()}
			g.plain = savePlain
			fmt.Fprintf(&b, "  augment \"/%s\" {\n", subAugTarget.name)
			emit(&b, 2, add)
			b.WriteString("  }\n")
			for _, a := range add {
				subAugKids = append(subAugKids, a.name)
			}
		}
		b.WriteString("}\n")
		set.Files[fmt.Sprintf("s%d", i)] = b.String()
		subRoots = append(subRoots, g.expand(body))
	}

	seenG := map[*grouping]bool{}
	for _, gr := range g.grps {
		if !seenG[gr] {
			seenG[gr] = true
			if hasDup(g.expand(gr.body)) {
				return nil
			}
		}
	}
	all := append([]*node(nil), rootNodes...)
	for _, sr := range subRoots {
		all = append(all, sr...)
	}
	if hasDup(all) {
		return nil
	}
	for _, x := range rpcs {
		if hasDup(g.expand(x.in)) || hasDup(g.expand(x.out)) {
			return nil
		}
	}
	for _, x := range notifs {
		if hasDup(g.expand(x.body)) {
			return nil
		}
	}
	record(set, "", rootNodes)
	if subAugTarget != nil {
		// the target gets children from three files: what the main module wrote keeps its
		// order, what the submodules add keeps the order of the includes; how the two
		// interleave is not prescribed
		set.Expect["~~"+subAugTarget.name+"#main"] = set.Expect[subAugTarget.name]
		set.Expect["~~"+subAugTarget.name+"#submodules"] = subAugKids
		delete(set.Expect, subAugTarget.name)
	}
	for i, sr := range subRoots {
		recordAs(set, fmt.Sprintf("~s%d", i+1), "", sr) // "~sN": subsequence expectation at the root
	}
	for _, x := range rpcs {
		record(set, x.name+"/input", g.expand(x.in))
		record(set, x.name+"/output", g.expand(x.out))
	}
	for _, x := range notifs {
		record(set, x.name, g.expand(x.body))
	}
	// the features of the module are the ones it and its submodules declare - not those of the modules it imports
	allFeats := append(append([]string(nil), g.feats...), subFeats...)
	sort.Strings(allFeats)
	g.facts["features:m"] = allFeats
	set.Stmts = g.n
	set.Feats = g.feats
	set.Lists = g.facts
	return set
}
