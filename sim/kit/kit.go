// Package kit holds what every simulator in /verif shares: the single seeded
// choice stream, the event log with its fingerprint, evidence files, the
// known-findings list and violation/replay reporting.
//
// Nothing in here reads a clock or ranges over a map on a path that feeds the
// event log; wall-clock time is read only to budget batches and to fill
// wall_s in evidence.
package kit

import (
	"encoding/json"
	"fmt"
	"hash/fnv"
	"os"
	"path/filepath"
	"sort"
	"strconv"
	"strings"
	"time"
)

// ---------------------------------------------------------------- choice stream

// Rng is a splitmix64 stream. Every choice a run makes is drawn from exactly
// one of these, created from the run's seed.
type Rng struct {
	s uint64
	n uint64 // number of draws, for diagnostics only
}

func NewRng(seed uint64) *Rng { return &Rng{s: seed} }

func (r *Rng) Uint64() uint64 {
	r.n++
	r.s += 0x9e3779b97f4a7c15
	z := r.s
	z = (z ^ (z >> 30)) * 0xbf58476d1ce4e5b9
	z = (z ^ (z >> 27)) * 0x94d049bb133111eb
	return z ^ (z >> 31)
}

// Intn returns a value in [0,n). n<=0 yields 0.
func (r *Rng) Intn(n int) int {
	if n <= 1 {
		if n == 1 {
			r.Uint64()
		}
		return 0
	}
	return int(r.Uint64() % uint64(n))
}

// Range returns a value in [lo,hi].
func (r *Rng) Range(lo, hi int) int {
	if hi <= lo {
		return lo
	}
	return lo + r.Intn(hi-lo+1)
}

// Chance is true with probability num/den.
func (r *Rng) Chance(num, den int) bool { return r.Intn(den) < num }

func (r *Rng) Pick(ss []string) string { return ss[r.Intn(len(ss))] }

// Perm returns a permutation of 0..n-1.
func (r *Rng) Perm(n int) []int {
	p := make([]int, n)
	for i := range p {
		p[i] = i
	}
	for i := n - 1; i > 0; i-- {
		j := r.Intn(i + 1)
		p[i], p[j] = p[j], p[i]
	}
	return p
}

func (r *Rng) Draws() uint64 { return r.n }

// Mix derives the seed of run i of a property from VERIF_SEED.
func Mix(seed uint64, tag string, i int) uint64 {
	h := fnv.New64a()
	h.Write([]byte(tag))
	x := seed ^ h.Sum64() ^ (uint64(i)+1)*0x9e3779b97f4a7c15
	return NewRng(x).Uint64()
}

// Seed reads VERIF_SEED (default 1).
func Seed() uint64 {
	if s := os.Getenv("VERIF_SEED"); s != "" {
		if v, err := strconv.ParseUint(s, 10, 64); err == nil {
			return v
		}
		if v, err := strconv.ParseInt(s, 10, 64); err == nil {
			return uint64(v)
		}
	}
	return 1
}

// ---------------------------------------------------------------- event log

// Log is the per-run event log. Only its hash and a bounded tail are kept.
type Log struct {
	h     uint64
	n     int
	keep  int
	Lines []string
}

func NewLog(keep int) *Log { return &Log{h: 14695981039346656037, keep: keep} }

func (l *Log) Add(format string, a ...interface{}) {
	if l == nil {
		return
	}
	var s string
	if len(a) == 0 {
		s = format
	} else {
		s = fmt.Sprintf(format, a...)
	}
	for i := 0; i < len(s); i++ {
		l.h ^= uint64(s[i])
		l.h *= 1099511628211
	}
	l.h ^= 0xff
	l.h *= 1099511628211
	l.n++
	if l.keep != 0 {
		if l.keep > 0 && len(l.Lines) >= l.keep {
			copy(l.Lines, l.Lines[1:])
			l.Lines = l.Lines[:len(l.Lines)-1]
		}
		l.Lines = append(l.Lines, s)
	}
}

func (l *Log) Hash() uint64 { return l.h }
func (l *Log) HashHex() string {
	return fmt.Sprintf("%016x", l.h)
}
func (l *Log) Len() int { return l.n }

// HashStr is a convenience FNV-1a over a string.
func HashStr(s string) uint64 {
	h := fnv.New64a()
	h.Write([]byte(s))
	return h.Sum64()
}

// ---------------------------------------------------------------- paths

// Root is /verif (override with VERIF_ROOT; checks are run with cwd=/verif).
func Root() string {
	if r := os.Getenv("VERIF_ROOT"); r != "" {
		return r
	}
	return "/verif"
}

// OutRoot is where evidence and replay files go: Root(), unless VERIF_OUT
// redirects them (trials of seeded changes against a scratch copy of the
// repository must not overwrite the evidence of the real tree).
func OutRoot() string {
	if r := os.Getenv("VERIF_OUT"); r != "" {
		return r
	}
	return Root()
}

func RepoRoot() string {
	if r := os.Getenv("VERIF_REPO"); r != "" {
		return r
	}
	return "/repo"
}

// ---------------------------------------------------------------- findings

type Finding struct {
	Status   string `json:"status"` // "known" or "fixed"
	Property string `json:"property"`
	Match    string `json:"match,omitempty"` // exact violation key (known only)
	Commit   string `json:"commit,omitempty"`
	What     string `json:"what"`
}

type Findings struct {
	All []Finding
}

func LoadFindings() (*Findings, error) {
	p := filepath.Join(Root(), "known_findings.json")
	b, err := os.ReadFile(p)
	if err != nil {
		if os.IsNotExist(err) {
			return &Findings{}, nil
		}
		return nil, err
	}
	var f []Finding
	if err := json.Unmarshal(b, &f); err != nil {
		return nil, fmt.Errorf("known_findings.json: %w", err)
	}
	return &Findings{All: f}, nil
}

// Known returns the listed known finding a violation key matches, if any.
// "fixed" entries never match: they suppress nothing.
func (f *Findings) Known(property, key string) *Finding {
	for i := range f.All {
		e := &f.All[i]
		if e.Status == "known" && e.Property == property && e.Match == key {
			return e
		}
	}
	return nil
}

// PrintUnmet prints the KNOWN-FINDING line of every listed known finding of
// the property that this run's sample did not happen to meet, so that the
// output names every listed finding whatever was sampled.
func (f *Findings) PrintUnmet(property string, seen []string) {
	met := map[string]bool{}
	for _, k := range seen {
		met[k] = true
	}
	for i := range f.All {
		e := &f.All[i]
		if e.Status == "known" && e.Property == property && !met[e.Match] {
			fmt.Printf("KNOWN-FINDING: property=%s %s [%s] (listed; not met by this run's sample)\n", property, e.What, e.Match)
		}
	}
}

// ---------------------------------------------------------------- violations

// Violation is one oracle failure. Key is the finding identity (stable across
// seeds: oracle + site, never a line number, pointer or seed).
type Violation struct {
	Property  string          `json:"property"`
	Oracle    string          `json:"oracle"`
	Key       string          `json:"key"`
	Detail    string          `json:"detail"`
	Seed      uint64          `json:"seed"`
	LogHash   string          `json:"log_hash"`
	LogTail   []string        `json:"log_tail,omitempty"`
	Scenario  json.RawMessage `json:"scenario"`
	Minimised bool            `json:"minimised"`
	Original  json.RawMessage `json:"original_scenario,omitempty"`
}

func (v *Violation) Error() string {
	return fmt.Sprintf("%s/%s: %s", v.Property, v.Key, v.Detail)
}

// WriteReplay stores the violation under /verif/replays and returns the path.
func WriteReplay(v *Violation) (string, error) {
	dir := filepath.Join(OutRoot(), "replays")
	if err := os.MkdirAll(dir, 0o755); err != nil {
		return "", err
	}
	name := fmt.Sprintf("%s-%016x.json", v.Property, HashStr(v.Key+"|"+string(v.Scenario)))
	p := filepath.Join(dir, name)
	b, err := json.MarshalIndent(v, "", " ")
	if err != nil {
		return "", err
	}
	return p, os.WriteFile(p, b, 0o644)
}

func ReadReplay(path string) (*Violation, error) {
	b, err := os.ReadFile(path)
	if err != nil {
		return nil, err
	}
	var v Violation
	if err := json.Unmarshal(b, &v); err != nil {
		return nil, err
	}
	return &v, nil
}

// ---------------------------------------------------------------- evidence

type Evidence struct {
	PropertyID  string                 `json:"property_id"`
	Tier        string                 `json:"tier"`
	Seed        int64                  `json:"seed"`
	Level       string                 `json:"level"`
	Coverage    map[string]interface{} `json:"coverage"`
	Assumptions []string               `json:"assumptions,omitempty"`
	WallS       float64                `json:"wall_s"`
	Violations  int                    `json:"violations"`
}

func (e *Evidence) Write() error {
	dir := filepath.Join(OutRoot(), "evidence")
	if err := os.MkdirAll(dir, 0o755); err != nil {
		return err
	}
	b, err := json.MarshalIndent(e, "", " ")
	if err != nil {
		return err
	}
	tmp := filepath.Join(dir, e.PropertyID+".json.tmp")
	if err := os.WriteFile(tmp, b, 0o644); err != nil {
		return err
	}
	return os.Rename(tmp, filepath.Join(dir, e.PropertyID+".json"))
}

// ---------------------------------------------------------------- counters

// Counter is a string->int tally with deterministic (sorted) rendering.
type Counter map[string]int

func (c Counter) Inc(k string)        { c[k]++ }
func (c Counter) Add(k string, n int) { c[k] += n }
func (c Counter) Merge(o Counter) {
	for k, v := range o {
		c[k] += v
	}
}
func (c Counter) Sorted() []string {
	ks := make([]string, 0, len(c))
	for k := range c {
		ks = append(ks, k)
	}
	sort.Strings(ks)
	return ks
}
func (c Counter) String() string {
	var b strings.Builder
	for i, k := range c.Sorted() {
		if i > 0 {
			b.WriteString(" ")
		}
		fmt.Fprintf(&b, "%s=%d", k, c[k])
	}
	return b.String()
}

// ---------------------------------------------------------------- budget

// Budget is a wall-clock limit for a batch. It never influences what a single
// run does, only how many runs a batch performs.
type Budget struct {
	start time.Time
	limit time.Duration
}

func NewBudget(d time.Duration) *Budget { return &Budget{start: time.Now(), limit: d} }
func (b *Budget) Exceeded() bool        { return b.limit > 0 && time.Since(b.start) > b.limit }
func (b *Budget) Elapsed() float64      { return time.Since(b.start).Seconds() }

// Tier reads VERIF_TIER or the given default.
func Tier(def string) string {
	if t := os.Getenv("VERIF_TIER"); t == "quick" || t == "thorough" {
		return t
	}
	return def
}

// EnvInt reads an integer knob.
func EnvInt(name string, def int) int {
	if s := os.Getenv(name); s != "" {
		if v, err := strconv.Atoi(s); err == nil {
			return v
		}
	}
	return def
}

// Pick3 returns one of three ints.
func (r *Rng) Pick3(a, b, c int) int { return [3]int{a, b, c}[r.Intn(3)] }
