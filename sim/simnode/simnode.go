// Package simnode wraps any node.Node with a recording, fault-injecting shell.
// It is seam S4 of DESIGN.md: every callback the library makes into a node
// passes through here, is appended to the run's history, and may be failed by
// the scenario's fault list.
package simnode

import (
	"context"
	"errors"
	"fmt"
	"strings"

	"github.com/freeconf/yang/meta"
	"github.com/freeconf/yang/node"
	"github.com/freeconf/yang/val"

	"verif/sim/kit"
)

// ErrInjected is the sentinel every injected error wraps.
var ErrInjected = errors.New("injected-fault")

type FaultKind string

const (
	FError       FaultKind = "error"        // return the injected error, do not delegate
	FRefuse      FaultKind = "refuse"       // creating Child/Next returns (nil, nil)
	FAfterEffect FaultKind = "after-effect" // delegate, then return the injected error
)

// Fault fires at the At-th callback of the session (0-based, counting every
// recorded callback on every wrapper).
type Fault struct {
	At   int       `json:"at"`
	Kind FaultKind `json:"kind"`
}

// Event is one recorded callback.
type Event struct {
	Seq    int
	Node   int    // wrapper id
	Side   string // "T" target side, "S" source side
	Call   string // Child Next Field Choose BeginEdit EndEdit Release Context
	Name   string // meta ident
	New    bool
	Delete bool
	Write  bool
	Clear  bool
	Root   bool // NodeRequest.EditRoot
	Source int  // wrapper id of NodeRequest.Source.Node (-1 unknown)
	Key    string
	Err    string // "" ok, "injected", or other error text
	Fault  FaultKind
	NilRet bool // Child/Next returned nil node
	Phase  int  // operation index within the history
}

func (e Event) IsWrite() bool {
	switch e.Call {
	case "Field":
		return e.Write || e.Clear
	case "Child", "Next":
		return e.New || e.Delete
	}
	return false
}

func (e Event) String() string {
	var f []string
	if e.New {
		f = append(f, "new")
	}
	if e.Delete {
		f = append(f, "delete")
	}
	if e.Write {
		f = append(f, "write")
	}
	if e.Clear {
		f = append(f, "clear")
	}
	if e.Root {
		f = append(f, "root")
	}
	s := fmt.Sprintf("%d %s#%d %s(%s%s)", e.Seq, e.Side, e.Node, e.Call, e.Name, e.Key)
	if len(f) > 0 {
		s += "[" + strings.Join(f, ",") + "]"
	}
	if e.Call == "BeginEdit" || e.Call == "EndEdit" {
		s += fmt.Sprintf(" src#%d", e.Source)
	}
	if e.Fault != "" {
		s += " FAULT:" + string(e.Fault)
	}
	if e.Err != "" {
		s += " err=" + e.Err
	}
	if e.NilRet {
		s += " ->nil"
	}
	return s
}

// Session owns the history and fault schedule shared by all wrappers.
type Session struct {
	Log    *kit.Log
	Events []Event
	Faults []Fault
	Fired  []Event // events at which a fault fired
	nextID int
	Nodes  []*W
	Phase  int
	Record bool // keep Events (always true in practice)
	// OnOpStart is called by the session just before the API call under test
	// (after navigation to the entry point).
	OnOpStart func()
	// Outer, when set, is applied to the wrapped target root before it is
	// given to the browser (e.g. to put a nodeutil.Extend around it).
	Outer func(n interface{}) interface{}
	// OnBrowser, when set, is handed the *node.Browser over the target side
	// right after it is created (e.g. to install triggers).
	OnBrowser func(b interface{})
	// FaultFilter, when set, says whether the kind applies to the event; a
	// fault scheduled on an inapplicable callback degrades to FError.
}

func NewSession(log *kit.Log, faults []Fault) *Session {
	return &Session{Log: log, Faults: faults, Record: true}
}

// W is the wrapper.
type W struct {
	S      *Session
	ID     int
	Side   string
	Inner  node.Node
	Parent *W
	Label  string
	// Created: the node was handed out in answer to a creating request (Child or
	// Next with New) rather than found.
	Created bool
}

func (s *Session) Wrap(inner node.Node, side string, parent *W, label string) *W {
	if inner == nil {
		return nil
	}
	w := &W{S: s, ID: s.nextID, Side: side, Inner: inner, Parent: parent, Label: label}
	s.nextID++
	s.Nodes = append(s.Nodes, w)
	return w
}

// IsAncestor reports whether a is a strict ancestor of w.
func (w *W) IsAncestorOf(x *W) bool {
	for p := x.Parent; p != nil; p = p.Parent {
		if p == w {
			return true
		}
	}
	return false
}

func (s *Session) faultFor(seq int) (FaultKind, bool) {
	for _, f := range s.Faults {
		if f.At == seq {
			return f.Kind, true
		}
	}
	return "", false
}

func injected(e Event) error {
	return fmt.Errorf("%w at callback %d (%s %s)", ErrInjected, e.Seq, e.Call, e.Name)
}

func (s *Session) begin(w *W, e Event) (Event, FaultKind) {
	e.Seq = len(s.Events)
	e.Node = w.ID
	e.Side = w.Side
	e.Phase = s.Phase
	k, ok := s.faultFor(e.Seq)
	if ok {
		// degrade inapplicable kinds
		creating := (e.Call == "Child" || e.Call == "Next") && e.New
		switch k {
		case FRefuse:
			if !creating {
				k = FError
			}
		case FAfterEffect:
			if !e.IsWrite() {
				k = FError
			}
		}
		e.Fault = k
	}
	return e, e.Fault
}

func (s *Session) end(e Event, err error) {
	if err != nil {
		if errors.Is(err, ErrInjected) {
			e.Err = "injected"
		} else {
			e.Err = err.Error()
		}
	}
	s.Events = append(s.Events, e)
	if e.Fault != "" {
		s.Fired = append(s.Fired, e)
	}
	s.Log.Add("%s", e.String())
}

func keyStr(k []val.Value) string {
	if len(k) == 0 {
		return ""
	}
	var p []string
	for _, v := range k {
		if v == nil {
			p = append(p, "<nil>")
		} else {
			p = append(p, v.String())
		}
	}
	return "=" + strings.Join(p, ",")
}

func (w *W) Child(r node.ChildRequest) (node.Node, error) {
	e, f := w.S.begin(w, Event{Call: "Child", Name: r.Meta.Ident(), New: r.New, Delete: r.Delete})
	switch f {
	case FError:
		err := injected(e)
		w.S.end(e, err)
		return nil, err
	case FRefuse:
		e.NilRet = true
		w.S.end(e, nil)
		return nil, nil
	}
	c, err := w.Inner.Child(r)
	if f == FAfterEffect {
		err = injected(e)
		w.S.end(e, err)
		return nil, err
	}
	if c == nil || isNilNode(c) {
		e.NilRet = true
		w.S.end(e, err)
		return nil, err
	}
	w.S.end(e, err)
	if err != nil {
		return nil, err
	}
	cw := w.S.Wrap(c, w.Side, w, w.Label+"/"+r.Meta.Ident())
	cw.Created = r.New
	return cw, nil
}

func isNilNode(n node.Node) bool {
	defer func() { recover() }()
	return n == nil
}

func (w *W) Next(r node.ListRequest) (node.Node, []val.Value, error) {
	e, f := w.S.begin(w, Event{Call: "Next", Name: r.Meta.Ident(), New: r.New, Delete: r.Delete, Key: keyStr(r.Key)})
	if len(r.Key) == 0 {
		e.Key = fmt.Sprintf("#%d", r.Row)
	}
	switch f {
	case FError:
		err := injected(e)
		w.S.end(e, err)
		return nil, nil, err
	case FRefuse:
		e.NilRet = true
		w.S.end(e, nil)
		return nil, nil, nil
	}
	c, k, err := w.Inner.Next(r)
	if f == FAfterEffect {
		err = injected(e)
		w.S.end(e, err)
		return nil, nil, err
	}
	if c == nil {
		e.NilRet = true
		w.S.end(e, err)
		return nil, k, err
	}
	w.S.end(e, err)
	if err != nil {
		return nil, nil, err
	}
	kk := k
	if kk == nil {
		kk = r.Key
	}
	cw := w.S.Wrap(c, w.Side, w, w.Label+keyStr(kk))
	cw.Created = r.New
	return cw, k, nil
}

func (w *W) Field(r node.FieldRequest, hnd *node.ValueHandle) error {
	e, f := w.S.begin(w, Event{Call: "Field", Name: r.Meta.Ident(), Write: r.Write && !r.Clear, Clear: r.Clear})
	if f == FError {
		err := injected(e)
		w.S.end(e, err)
		return err
	}
	err := w.Inner.Field(r, hnd)
	if f == FAfterEffect {
		err = injected(e)
	}
	w.S.end(e, err)
	return err
}

func (w *W) Choose(sel *node.Selection, choice *meta.Choice) (*meta.ChoiceCase, error) {
	e, f := w.S.begin(w, Event{Call: "Choose", Name: choice.Ident()})
	if f != "" {
		err := injected(e)
		w.S.end(e, err)
		return nil, err
	}
	c, err := w.Inner.Choose(sel, choice)
	if c != nil {
		e.Key = "->" + c.Ident()
	}
	w.S.end(e, err)
	return c, err
}

func (w *W) srcID(r node.NodeRequest) int {
	if r.Source != nil {
		if sw, ok := r.Source.Node.(*W); ok {
			return sw.ID
		}
	}
	return -1
}

func (w *W) BeginEdit(r node.NodeRequest) error {
	e, f := w.S.begin(w, Event{Call: "BeginEdit", New: r.New, Delete: r.Delete, Root: r.EditRoot, Source: w.srcID(r)})
	if f == FError {
		err := injected(e)
		w.S.end(e, err)
		return err
	}
	err := w.Inner.BeginEdit(r)
	if f == FAfterEffect {
		err = injected(e)
	}
	w.S.end(e, err)
	return err
}

func (w *W) EndEdit(r node.NodeRequest) error {
	e, f := w.S.begin(w, Event{Call: "EndEdit", New: r.New, Delete: r.Delete, Root: r.EditRoot, Source: w.srcID(r)})
	if f == FError {
		err := injected(e)
		w.S.end(e, err)
		return err
	}
	err := w.Inner.EndEdit(r)
	if f == FAfterEffect {
		err = injected(e)
	}
	w.S.end(e, err)
	return err
}

func (w *W) Action(r node.ActionRequest) (node.Node, error) { return w.Inner.Action(r) }
func (w *W) Notify(r node.NotifyRequest) (node.NotifyCloser, error) {
	return w.Inner.Notify(r)
}
func (w *W) Peek(sel *node.Selection, consumer interface{}) interface{} {
	return w.Inner.Peek(sel, consumer)
}
func (w *W) Context(sel *node.Selection) context.Context { return w.Inner.Context(sel) }
func (w *W) Release(sel *node.Selection)                 { w.Inner.Release(sel) }
