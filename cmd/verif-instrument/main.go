// Command verif-instrument rewrites a scratch copy of freeconf/yang (never
// /repo) so that the simulator owns map iteration order and gets a yield
// before every statement:
//
//	for k, v := range m {B}   (m a map)  ->  for _, zzE := range zzverifrt.MapEntries(m, site) { k, v := zzE.K, zzE.V; B }
//	x.MapKeys()  (x a reflect.Value)     ->  zzverifrt.MapKeys(x, site)
//	every statement S in a function body ->  zzverifrt.Yield(site); S
//
// and generates, per package, a file registering the address of every
// package-level variable. It must run with the scratch copy as working
// directory; any type-check error is fatal (an expression it cannot type is
// one it would silently not rewrite).
package main

import (
	"bytes"
	"fmt"
	"go/ast"
	"go/format"
	"go/importer"
	"go/parser"
	"go/token"
	"go/types"
	"os"
	"path/filepath"
	"sort"
	"strings"
)

const rtPath = "github.com/freeconf/yang/zzverifrt"

var (
	siteSeq       int32
	rangeSites    []string // "id\tpkg.Func"
	nYield        int
	nRange        int
	nMapKeys      int
	nUncontrolled int
)

func fatal(format string, a ...interface{}) {
	fmt.Fprintf(os.Stderr, "verif-instrument: "+format+"\n", a...)
	os.Exit(2)
}

func main() {
	if len(os.Args) < 3 {
		fatal("usage: verif-instrument <scratch-root> <pkg>...")
	}
	root := os.Args[1]
	if err := os.Chdir(root); err != nil {
		fatal("%v", err)
	}
	for _, pkg := range os.Args[2:] {
		instrumentPkg(pkg)
	}
	fmt.Printf("verif-instrument: %d range sites, %d MapKeys calls, %d yield sites\n", nRange, nMapKeys, nYield)
}

func yieldOnlyEntry(file string) bool {
	// goyacc outputs: huge generated switch statements; function-entry yields only
	b := filepath.Base(file)
	return b == "parser.go"
}

func instrumentPkg(pkg string) {
	fset := token.NewFileSet()
	entries, err := os.ReadDir(pkg)
	if err != nil {
		fatal("%v", err)
	}
	var files []*ast.File
	var names []string
	for _, e := range entries {
		n := e.Name()
		if e.IsDir() || !strings.HasSuffix(n, ".go") || strings.HasSuffix(n, "_test.go") || strings.HasPrefix(n, "zz_verif") {
			continue
		}
		path := filepath.Join(pkg, n)
		src, err := os.ReadFile(path)
		if err != nil {
			fatal("%v", err)
		}
		if bytes.Contains(src, []byte("//go:build ignore")) || bytes.Contains(src, []byte("// +build ignore")) {
			continue
		}
		f, err := parser.ParseFile(fset, path, src, parser.ParseComments)
		if err != nil {
			fatal("parse %s: %v", path, err)
		}
		files = append(files, f)
		names = append(names, path)
	}
	if len(files) == 0 {
		return
	}
	info := &types.Info{Types: map[ast.Expr]types.TypeAndValue{}, Defs: map[*ast.Ident]types.Object{}, Uses: map[*ast.Ident]types.Object{}, Selections: map[*ast.SelectorExpr]*types.Selection{}}
	var typeErrs []error
	conf := types.Config{
		Importer: importer.ForCompiler(fset, "source", nil),
		Error:    func(err error) { typeErrs = append(typeErrs, err) },
	}
	pkgPath := "github.com/freeconf/yang/" + pkg
	tpkg, _ := conf.Check(pkgPath, fset, files, info)
	if len(typeErrs) > 0 {
		for _, e := range typeErrs {
			fmt.Fprintln(os.Stderr, "  ", e)
		}
		fatal("type errors in %s: refusing to instrument", pkg)
	}
	for i, f := range files {
		in := &inst{fset: fset, info: info, pkg: pkg, file: names[i], entryOnly: yieldOnlyEntry(names[i])}
		in.file_(f)
		if in.changed {
			addImport(f)
			var buf bytes.Buffer
			if err := format.Node(&buf, fset, f); err != nil {
				fatal("print %s: %v", names[i], err)
			}
			if err := os.WriteFile(names[i], buf.Bytes(), 0o644); err != nil {
				fatal("%v", err)
			}
		}
	}
	writeGlobals(pkg, tpkg)
}

func addImport(f *ast.File) {
	for _, im := range f.Imports {
		if im.Path.Value == `"`+rtPath+`"` {
			return
		}
	}
	spec := &ast.ImportSpec{Path: &ast.BasicLit{Kind: token.STRING, Value: `"` + rtPath + `"`}}
	decl := &ast.GenDecl{Tok: token.IMPORT, Specs: []ast.Spec{spec}}
	f.Decls = append([]ast.Decl{decl}, f.Decls...)
	f.Imports = append(f.Imports, spec)
}

func writeGlobals(pkg string, tpkg *types.Package) {
	var vars []string
	scope := tpkg.Scope()
	for _, n := range scope.Names() {
		if v, ok := scope.Lookup(n).(*types.Var); ok && n != "_" {
			vars = append(vars, v.Name())
		}
	}
	sort.Strings(vars)
	var b bytes.Buffer
	fmt.Fprintf(&b, "//go:build verif\n\npackage %s\n\nimport zzverifrt %q\n\nfunc init() {\n", tpkg.Name(), rtPath)
	for _, v := range vars {
		fmt.Fprintf(&b, "\tzzverifrt.RegisterGlobal(%q, &%s)\n", pkg+"."+v, v)
	}
	for _, s := range rangeSites {
		parts := strings.SplitN(s, "\t", 3)
		if parts[0] == pkg {
			fmt.Fprintf(&b, "\tzzverifrt.RegisterRangeSite(%s, %q)\n", parts[1], parts[2])
		}
	}
	b.WriteString("}\n\nvar _ = zzverifrt.RegisterGlobal\n")
	if err := os.WriteFile(filepath.Join(pkg, "zz_verif_globals.go"), b.Bytes(), 0o644); err != nil {
		fatal("%v", err)
	}
}

type inst struct {
	fset      *token.FileSet
	info      *types.Info
	pkg       string
	file      string
	entryOnly bool
	changed   bool
	fn        string
}

func (in *inst) site() *ast.BasicLit {
	siteSeq++
	return &ast.BasicLit{Kind: token.INT, Value: fmt.Sprint(siteSeq)}
}

func rtCall(name string, args ...ast.Expr) *ast.CallExpr {
	return &ast.CallExpr{Fun: &ast.SelectorExpr{X: ast.NewIdent("zzverifrt"), Sel: ast.NewIdent(name)}, Args: args}
}

func (in *inst) yieldStmt() ast.Stmt {
	nYield++
	in.changed = true
	return &ast.ExprStmt{X: rtCall("Yield", in.site())}
}

func (in *inst) file_(f *ast.File) {
	for _, d := range f.Decls {
		fd, ok := d.(*ast.FuncDecl)
		if !ok || fd.Body == nil {
			continue
		}
		if fd.Name.Name == "init" && fd.Recv == nil {
			continue
		}
		in.fn = in.pkg + "." + fd.Name.Name
		if fd.Recv != nil && len(fd.Recv.List) > 0 {
			in.fn = in.pkg + "." + recvName(fd.Recv.List[0].Type) + "." + fd.Name.Name
		}
		if in.entryOnly {
			in.rewriteExprs(fd.Body)
			fd.Body.List = append([]ast.Stmt{in.yieldStmt()}, fd.Body.List...)
			continue
		}
		in.block(fd.Body)
	}
}

func recvName(e ast.Expr) string {
	switch x := e.(type) {
	case *ast.StarExpr:
		return recvName(x.X)
	case *ast.Ident:
		return x.Name
	case *ast.IndexExpr:
		return recvName(x.X)
	}
	return "?"
}

// rewriteExprs handles MapKeys calls, ranges and function literals in a subtree
// without adding per-statement yields (used for goyacc output).
func (in *inst) rewriteExprs(n ast.Node) {
	ast.Inspect(n, func(x ast.Node) bool {
		switch s := x.(type) {
		case *ast.BlockStmt:
			for i, st := range s.List {
				s.List[i] = in.rangeRewrite(st)
			}
		case *ast.CaseClause:
			for i, st := range s.Body {
				s.Body[i] = in.rangeRewrite(st)
			}
		case *ast.CallExpr:
			in.mapKeys(s)
		}
		return true
	})
}

func (in *inst) block(b *ast.BlockStmt) {
	if b == nil {
		return
	}
	b.List = in.stmts(b.List)
}

func (in *inst) stmts(list []ast.Stmt) []ast.Stmt {
	out := make([]ast.Stmt, 0, len(list)*2)
	for _, s := range list {
		s = in.stmt(s)
		out = append(out, in.yieldStmt(), s)
	}
	return out
}

// exprs rewrites function literals and MapKeys calls inside expressions.
func (in *inst) exprs(n ast.Node) {
	if n == nil {
		return
	}
	ast.Inspect(n, func(x ast.Node) bool {
		switch e := x.(type) {
		case *ast.FuncLit:
			in.block(e.Body)
			return false
		case *ast.CallExpr:
			in.mapKeys(e)
		}
		return true
	})
}

func (in *inst) mapKeys(c *ast.CallExpr) {
	sel, ok := c.Fun.(*ast.SelectorExpr)
	if !ok || sel.Sel.Name != "MapKeys" || len(c.Args) != 0 {
		return
	}
	tv, ok := in.info.Types[sel.X]
	if !ok {
		return
	}
	if tv.Type.String() != "reflect.Value" {
		return
	}
	nMapKeys++
	in.changed = true
	c.Fun = &ast.SelectorExpr{X: ast.NewIdent("zzverifrt"), Sel: ast.NewIdent("MapKeys")}
	id := in.site()
	rangeSites = append(rangeSites, fmt.Sprintf("%s\t%s\t%s(MapKeys)", in.pkg, id.Value, in.fn))
	c.Args = []ast.Expr{sel.X, id}
}

func (in *inst) stmt(s ast.Stmt) ast.Stmt {
	switch x := s.(type) {
	case *ast.BlockStmt:
		in.block(x)
	case *ast.IfStmt:
		in.exprs(x.Init)
		in.exprs(x.Cond)
		in.block(x.Body)
		if x.Else != nil {
			x.Else = in.stmt(x.Else)
		}
	case *ast.ForStmt:
		in.exprs(x.Init)
		in.exprs(x.Cond)
		in.exprs(x.Post)
		in.block(x.Body)
	case *ast.RangeStmt:
		in.exprs(x.X)
		in.block(x.Body)
		return in.rangeRewrite(x)
	case *ast.SwitchStmt:
		in.exprs(x.Init)
		in.exprs(x.Tag)
		for _, c := range x.Body.List {
			cc := c.(*ast.CaseClause)
			for _, e := range cc.List {
				in.exprs(e)
			}
			cc.Body = in.stmts(cc.Body)
		}
	case *ast.TypeSwitchStmt:
		in.exprs(x.Init)
		in.exprs(x.Assign)
		for _, c := range x.Body.List {
			cc := c.(*ast.CaseClause)
			cc.Body = in.stmts(cc.Body)
		}
	case *ast.SelectStmt:
		for _, c := range x.Body.List {
			cc := c.(*ast.CommClause)
			cc.Body = in.stmts(cc.Body)
		}
	case *ast.LabeledStmt:
		x.Stmt = in.stmt(x.Stmt)
	default:
		in.exprs(s)
	}
	return s
}

func exprString(fset *token.FileSet, e ast.Expr) string {
	var b bytes.Buffer
	format.Node(&b, fset, e)
	return b.String()
}

func (in *inst) rangeRewrite(s ast.Stmt) ast.Stmt {
	r, ok := s.(*ast.RangeStmt)
	if !ok {
		return s
	}
	tv, ok := in.info.Types[r.X]
	if !ok {
		fatal("%s: range expression %s has no type information", in.file, exprString(in.fset, r.X))
	}
	mt, ok := tv.Type.Underlying().(*types.Map)
	if !ok {
		return s
	}
	if r.Key == nil {
		return s // "for range m": order-free
	}
	// string-kinded keys (all there are in the unchanged tree) sort directly;
	// any other key type goes through the generic entry point
	entries := "MapEntries"
	if b, ok := mt.Key().Underlying().(*types.Basic); !ok || b.Kind() != types.String {
		entries = "MapEntriesAny"
		fmt.Fprintf(os.Stderr, "verif-instrument: note: %s: range over map with non-string key %s in %s\n", in.file, mt.Key(), in.fn)
	}
	// A body that adds to the ranged map, or deletes a key other than the loop
	// key, would behave differently over a snapshot: leave such a loop as it is
	// (Go's own order, not the simulator's) and say so.
	mapText := exprString(in.fset, r.X)
	keyName := ""
	if id, ok := r.Key.(*ast.Ident); ok {
		keyName = id.Name
	}
	mutates := ""
	ast.Inspect(r.Body, func(n ast.Node) bool {
		switch x := n.(type) {
		case *ast.AssignStmt:
			for _, l := range x.Lhs {
				if ix, ok := l.(*ast.IndexExpr); ok && exprString(in.fset, ix.X) == mapText {
					mutates = "assigns into the ranged map"
				}
			}
		case *ast.CallExpr:
			if id, ok := x.Fun.(*ast.Ident); ok && id.Name == "delete" && len(x.Args) == 2 && exprString(in.fset, x.Args[0]) == mapText {
				if k, ok := x.Args[1].(*ast.Ident); !ok || k.Name != keyName || keyName == "_" {
					mutates = "deletes a key other than the loop key"
				}
			}
		}
		return true
	})
	if mutates != "" {
		fmt.Fprintf(os.Stderr, "verif-instrument: note: %s: loop over %s in %s %s: left in Go's own iteration order (not controlled by the simulator)\n", in.file, mapText, in.fn, mutates)
		nUncontrolled++
		return s
	}
	nRange++
	in.changed = true
	id := in.site()
	rangeSites = append(rangeSites, fmt.Sprintf("%s\t%s\t%s", in.pkg, id.Value, in.fn))
	var lhs, rhs []ast.Expr
	var use []ast.Expr
	if k, ok := r.Key.(*ast.Ident); !ok || k.Name != "_" {
		lhs = append(lhs, r.Key)
		rhs = append(rhs, &ast.SelectorExpr{X: ast.NewIdent("zzE"), Sel: ast.NewIdent("K")})
		use = append(use, r.Key)
	}
	if r.Value != nil {
		if v, ok := r.Value.(*ast.Ident); !ok || v.Name != "_" {
			lhs = append(lhs, r.Value)
			rhs = append(rhs, &ast.SelectorExpr{X: ast.NewIdent("zzE"), Sel: ast.NewIdent("V")})
			use = append(use, r.Value)
		}
	}
	var pre []ast.Stmt
	if len(lhs) > 0 {
		pre = append(pre, &ast.AssignStmt{Lhs: lhs, Tok: r.Tok, Rhs: rhs})
		if r.Tok == token.DEFINE {
			blanks := make([]ast.Expr, len(use))
			for i := range blanks {
				blanks[i] = ast.NewIdent("_")
			}
			pre = append(pre, &ast.AssignStmt{Lhs: blanks, Tok: token.ASSIGN, Rhs: cloneIdents(use)})
		}
	}
	body := &ast.BlockStmt{List: append(pre, r.Body.List...)}
	if len(lhs) == 0 {
		return &ast.RangeStmt{X: rtCall(entries, r.X, id), Body: body}
	}
	return &ast.RangeStmt{
		Key: ast.NewIdent("_"), Value: ast.NewIdent("zzE"), Tok: token.DEFINE,
		X:    rtCall(entries, r.X, id),
		Body: body,
	}
}

func cloneIdents(es []ast.Expr) []ast.Expr {
	out := make([]ast.Expr, len(es))
	for i, e := range es {
		if id, ok := e.(*ast.Ident); ok {
			out[i] = ast.NewIdent(id.Name)
		} else {
			out[i] = e
		}
	}
	return out
}
