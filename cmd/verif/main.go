// Command verif is the single entry point of the verification machinery:
//
//	verif check <property> [quick|thorough]
//	verif replay <file>
package main

import (
	"fmt"
	"os"
	"strings"

	"verif/checks"
	"verif/sim/kit"
)

func usage() {
	fmt.Fprintln(os.Stderr, "usage: verif check <Cnn> [quick|thorough] | verif replay <file>")
	os.Exit(2)
}

func main() {
	if len(os.Args) >= 2 {
		if w, ok := checks.Workers[os.Args[1]]; ok {
			w()
			return
		}
	}
	if len(os.Args) < 3 {
		usage()
	}
	switch os.Args[1] {
	case "check":
		mk, ok := checks.Registry[os.Args[2]]
		if !ok {
			fmt.Fprintf(os.Stderr, "harness: no check for %s in this build\n", os.Args[2])
			os.Exit(2)
		}
		tier := kit.Tier("quick")
		if len(os.Args) > 3 {
			tier = os.Args[3]
		}
		os.Exit(mk().Batch(tier))
	case "replay":
		v, err := kit.ReadReplay(os.Args[2])
		if err != nil {
			fmt.Fprintln(os.Stderr, "harness:", err)
			os.Exit(2)
		}
		mk, ok := checks.Registry[strings.ToUpper(v.Property)]
		if !ok {
			fmt.Fprintf(os.Stderr, "harness: no check for %s in this build\n", v.Property)
			os.Exit(2)
		}
		os.Exit(mk().ReplayFile(os.Args[2]))
	default:
		usage()
	}
}
